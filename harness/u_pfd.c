// UNIT harness for src/platform/posix/posix_pollq_epoll.c (C10 / C02, the poller layer): deterministic
// replay of thread schedules on the REAL code, with a scripted kernel.
//
// The real posix_pollq_epoll.c is #included below with every call it makes into the thread layer
// (nni_mtx_lock/unlock, nni_cv_wait/wake, nni_thr_*), every atomic access to a pfd field
// (nni_atomic_or / nni_atomic_and on pfd->events, nni_atomic_flag_test_and_set on pfd->closing /
// pfd->stopped) and every system call (epoll_create1, eventfd, fcntl, epoll_ctl, epoll_wait, read,
// write, shutdown, close) renamed to a hook.  A hook parks the calling thread on a semaphore (baton)
// BEFORE it performs its action, so the schedule decides the order of all such actions: one
// `step <t>` = thread t performs the action it is parked at and runs on to its next park point
// (plain accesses to pfd fields in between belong to that step).  The callback parks at its begin
// and at its return.  The kernel is scripted: the epoll set, the eventfd counter and the descriptor
// are harness state; epoll_wait returns what the rules of lean/NngModel/Model/Pfd.lean (`harvest`)
// give for the readiness passed with the step.  That is exactly one step of that model.
//
// line protocol (one observation line out per line in):
//   init <progs> <scripts>      one client thread per program; progs = comma separated words over
//                               i o b (nni_posix_pfd_arm POLLIN / POLLOUT / both) c (close) s (stop)
//                               f (fini) x (the owner frees the structure) k (another pfd's stop writes the
//                               eventfd); `-` = empty, `none` = no client;
//                               scripts: same syntax, the k-th word = what the k-th callback invocation does
//   step <p|c<i>> [ready [w|f]] ready = letters over i o e h or `-` (what the descriptor is ready for when
//                               the poller's epoll_wait runs); f = the pfd entry precedes the wake entry
//   reset                       end of case: all threads are discarded
// observation: see Spec/Pfd.lean `Obs` (first part) + implementation state + next=<park point of each thread>
#include "core/nng_impl.h"

#include <errno.h>
#include <fcntl.h>
#include <poll.h>
#include <pthread.h>
#include <semaphore.h>
#include <stdbool.h>
#include <stdio.h>
#include <string.h>
#include <sys/epoll.h>
#include <sys/eventfd.h>
#include <sys/socket.h>
#include <unistd.h>

#include "platform/posix/posix_pollq.h"

#include "common.h"

#define NCMAX 8
#define NTMAX (NCMAX + 1)
#define MAXPROG 64
#define MAXSCR 64
#define PFD_FD 7
#define K_EPFD 100
#define K_EVFD 101
#define EVMASK (POLLIN | POLLOUT | POLLERR | POLLHUP)

// ---- baton ----
static sem_t        go[NTMAX], ack[NTMAX];
static pthread_t    thr[NTMAX];
static int          started_thr[NTMAX];
static int          nc, nthr; // thread 0 = the poller, 1..nc = clients
static const char  *next_call[NTMAX];
static int          finished[NTMAX];
static volatile int kill_all;
static __thread int tl_tid = -1;

// ---- tracked mutex / condition variable (no real locking: one thread runs at a time) ----
static void *mtx_addr, *cv_addr;
static int   mtx_owner = -1;
static int   waiting[NTMAX], woken[NTMAX], want[NTMAX];
static int   lockbad;

// ---- scripted kernel ----
static int      k_reg, k_en, k_fdopen, k_shut;
static unsigned k_mask;
static uint64_t k_evfd;
static unsigned cur_ready;
static int      cur_wakefirst;

// ---- ghost (what an outside observer counts) ----
static unsigned g_nb, g_nr, g_ab, g_kb, g_sb, g_sr, g_fb, g_fr, g_xr, g_pb, g_hv, g_cbB, g_cbE;
static unsigned g_hm, g_cm, g_la;
static int      g_sect = -1, g_cd, g_uaf, g_badfd, g_regc, g_freed, g_incb;
static int      sh_closing, sh_stopped; // shadows of the two atomic flags
static char     fresh_op[NTMAX];        // the call thread t is about to begin (accounted at its first step)
static char     cur_op[NTMAX];          // the call thread t is inside
static unsigned cur_req[NTMAX];
static char     res[NCMAX][MAXPROG + 1];
static char     prog[NCMAX][MAXPROG + 1];
static char     script[MAXSCR][MAXPROG + 1];
static int      nscript;
static int      active;

static nni_posix_pfd *P;

static void
die(const char *msg)
{
	fflush(stdout);
	fprintf(stderr, "u_pfd: %s\n", msg);
	abort();
}

#define TOUCH()                  \
	do {                     \
		if (g_freed) {   \
			g_uaf = 1; \
		}                \
	} while (0)

static void
begin_account(int t)
{
	char op = fresh_op[t];
	if (op == 0) {
		return;
	}
	fresh_op[t] = 0;
	cur_op[t]   = op;
	g_nb++;
	switch (op) {
	case 'i':
	case 'o':
	case 'b':
		g_ab++;
		break;
	case 'c':
		g_kb++;
		break;
	case 's':
		g_sb++;
		break;
	case 'f':
		g_fb++;
		break;
	}
	if (t == 0 && (op == 's' || op == 'f' || op == 'x')) {
		g_pb++;
	}
}

static void
park(int t, const char *name)
{
	if (name != NULL) {
		next_call[t] = name;
	}
	sem_post(&ack[t]);
	sem_wait(&go[t]);
	if (kill_all) {
		pthread_exit(NULL);
	}
	begin_account(t);
}

// ---- thread layer hooks ----
static void
hk_mtx_init(nni_mtx *m)
{
	mtx_addr  = m;
	mtx_owner = -1;
}

static void
hk_mtx_fini(nni_mtx *m)
{
	(void) m;
}

static void
hk_cv_init(nni_cv *cv, nni_mtx *m)
{
	(void) m;
	cv_addr = cv;
}

static int              reapq_len(void);

static void
hk_mtx_lock(nni_mtx *m)
{
	int t = tl_tid;
	(void) m;
	if (t < 0) {
		return;
	}
	want[t] = 1;
	park(t, "lock"); // main releases us only if the mutex is free
	want[t] = 0;
	if (mtx_owner != -1) {
		lockbad = 1;
	}
	mtx_owner = t;
	if (t == 0 && cur_op[0] == 0) {
		// the reap section of nni_epoll_thr: nni_list_remove touches pfd->node if it is linked
		if (g_freed && reapq_len() > 0) {
			g_uaf = 1;
		}
	} else {
		TOUCH(); // nni_posix_pfd_stop: nni_list_append(&pq->reapq, pfd)
	}
}

static void
hk_mtx_unlock(nni_mtx *m)
{
	int t = tl_tid;
	(void) m;
	if (t < 0) {
		return;
	}
	if (mtx_owner != t) {
		lockbad = 1;
	}
	mtx_owner = -1;
}

static void
hk_cv_wait(nni_cv *cv)
{
	int t = tl_tid;
	(void) cv;
	if (t < 0) {
		die("harness main thread would block in nni_cv_wait");
	}
	if (mtx_owner != t) {
		lockbad = 1;
	}
	mtx_owner  = -1;
	waiting[t] = 1;
	woken[t]   = 0;
	park(t, "wait"); // main releases us only when woken and the mutex is free
	waiting[t] = 0;
	if (mtx_owner != -1) {
		lockbad = 1;
	}
	mtx_owner = t;
	TOUCH(); // re-test nni_list_node_active(&pfd->node)
}

static void
hk_cv_wake(nni_cv *cv)
{
	(void) cv;
	for (int t = 0; t < nthr; t++) {
		if (waiting[t] && !woken[t]) {
			woken[t]     = 1;
			next_call[t] = "lock";
		}
	}
}

static struct {
	nni_thr_func fn;
	void        *arg;
	int          set;
} pthr;

static void *
poller_main(void *arg)
{
	(void) arg;
	tl_tid = 0;
	pthr.fn(pthr.arg);
	finished[0]  = 1;
	next_call[0] = "exit";
	sem_post(&ack[0]);
	return (NULL);
}

static int
hk_thr_init(nni_thr *t, nni_thr_func fn, void *arg)
{
	(void) t;
	pthr.fn  = fn;
	pthr.arg = arg;
	pthr.set = 1;
	return (0);
}

static void
hk_thr_run(nni_thr *t)
{
	(void) t;
	sem_init(&go[0], 0, 0);
	sem_init(&ack[0], 0, 0);
	pthread_create(&thr[0], NULL, poller_main, NULL);
	started_thr[0] = 1;
	sem_wait(&ack[0]); // parked at its first epoll_wait
}

static void
hk_thr_fini(nni_thr *t)
{
	(void) t;
}

static void
hk_thr_set_name(nni_thr *t, const char *name)
{
	(void) t;
	(void) name;
}

static bool
hk_thr_is_self(nni_thr *t)
{
	(void) t;
	return (tl_tid == 0);
}

// ---- atomic hooks ----
static int
hk_atomic_or(nni_atomic_int *v, int m)
{
	int t = tl_tid;
	if (t >= 0) {
		park(t, "or");
		TOUCH();
		g_sect = t;
	}
	return (nni_atomic_or(v, m));
}

static int
hk_atomic_and(nni_atomic_int *v, int m)
{
	int t = tl_tid;
	if (t >= 0) {
		park(t, "and");
		TOUCH();
	}
	return (nni_atomic_and(v, m));
}

static bool
hk_flag_tas(nni_atomic_flag *f)
{
	int  t       = tl_tid;
	int  closing = (P != NULL && f == &P->closing);
	bool was;
	if (t >= 0) {
		park(t, closing ? "tas:closing" : "tas:stopped");
		TOUCH();
	}
	was = nni_atomic_flag_test_and_set(f);
	if (t >= 0) {
		if (closing) {
			sh_closing = 1;
			if (!was && cur_op[t] == 'c') {
				g_sect = t;
			}
			if (was && cur_op[t] == 's') {
				g_sect = -1;
			}
		} else {
			sh_stopped = 1;
			if (!was) {
				g_sect = t;
			}
		}
	}
	return (was);
}

// ---- system call hooks ----
static int
hk_epoll_create1(int flags)
{
	(void) flags;
	return (K_EPFD);
}

static int
hk_eventfd(unsigned init, int flags)
{
	(void) init;
	(void) flags;
	return (K_EVFD);
}

static int
hk_epoll_ctl(int epfd, int op, int fd, struct epoll_event *ev)
{
	int t = tl_tid;
	(void) epfd;
	if (t < 0) {
		return (0); // nni_epoll_pq_add_eventfd during init
	}
	park(t, "ctl");
	TOUCH();
	if (op == EPOLL_CTL_DEL) {
		g_cd   = 1;
		g_sect = -1;
		g_la   = 0;
	} else {
		g_sect = -1;
	}
	if (fd != PFD_FD || !k_fdopen) {
		g_badfd = 1;
		errno   = EBADF;
		return (-1);
	}
	switch (op) {
	case EPOLL_CTL_ADD:
		if (k_reg) {
			errno = EEXIST;
			return (-1);
		}
		k_reg  = 1;
		k_mask = ev->events & EVMASK;
		k_en   = 1;
		return (0);
	case EPOLL_CTL_MOD:
		if (!k_reg) {
			errno = ENOENT;
			return (-1);
		}
		k_mask = ev->events & EVMASK;
		k_en   = 1;
		return (0);
	case EPOLL_CTL_DEL:
		if (!k_reg) {
			errno = ENOENT;
			return (-1);
		}
		k_reg = 0;
		return (0);
	}
	errno = EINVAL;
	return (-1);
}

static unsigned
pfd_event_now(unsigned ready)
{
	if (!(k_reg && k_en)) {
		return (0);
	}
	return (ready & (k_mask | POLLERR | POLLHUP));
}

static int
hk_epoll_wait(int epfd, struct epoll_event *evs, int max, int tmo)
{
	int      t = tl_tid;
	int      n = 0;
	unsigned pe;
	(void) epfd;
	(void) tmo;
	if (t != 0 || max < 2) {
		die("epoll_wait outside the poller thread");
	}
	park(t, "epoll_wait"); // main releases us only if something is reported
	pe = pfd_event_now(cur_ready);
	memset(evs, 0, 2 * sizeof(*evs));
	if (cur_wakefirst && k_evfd > 0) {
		evs[n].events   = EPOLLIN;
		evs[n].data.ptr = NULL;
		n++;
	}
	if (pe != 0) {
		evs[n].events   = pe;
		evs[n].data.ptr = P;
		n++;
		k_en = 0; // EPOLLONESHOT
		g_hv++;
		g_hm = pe;
		g_la = 0;
	}
	if (!cur_wakefirst && k_evfd > 0) {
		evs[n].events   = EPOLLIN;
		evs[n].data.ptr = NULL;
		n++;
	}
	return (n);
}

static ssize_t
hk_read(int fd, void *buf, size_t n)
{
	int t = tl_tid;
	if (fd != K_EVFD || t < 0) {
		die("unexpected read");
	}
	park(t, "read");
	memcpy(buf, &k_evfd, n < sizeof(k_evfd) ? n : sizeof(k_evfd));
	k_evfd = 0;
	return ((ssize_t) n);
}

static ssize_t
hk_write(int fd, const void *buf, size_t n)
{
	int t = tl_tid;
	(void) buf;
	if (fd != K_EVFD || t < 0) {
		die("unexpected write");
	}
	park(t, "write");
	TOUCH(); // followed by nni_list_node_active(&pfd->node)
	k_evfd++;
	return ((ssize_t) n);
}

static int
hk_shutdown(int fd, int how)
{
	int t = tl_tid;
	(void) how;
	if (t < 0) {
		die("unexpected shutdown");
	}
	park(t, "shutdown");
	TOUCH();
	k_shut = 1;
	if (fd != PFD_FD || !k_fdopen) {
		g_badfd = 1;
		errno   = EBADF;
		return (-1);
	}
	return (0);
}

static int
hk_close(int fd)
{
	int t = tl_tid;
	if (t < 0) {
		return (0);
	}
	if (fd == K_EPFD || fd == K_EVFD) {
		return (0);
	}
	park(t, "close");
	TOUCH();
	if (fd != PFD_FD || !k_fdopen) {
		g_badfd = 1;
	}
	if (k_reg) {
		g_regc = 1;
	}
	k_fdopen = 0;
	k_reg    = 0;
	g_la     = 0;
	if (g_incb) {
		// the callback is still running when fini returns: reported by the judge (cbE < cbB with fr >= 1)
	}
	return (0);
}

// ---- the real code, with its calls routed through the hooks ----
#define nni_posix_pfd_init ut_pfd_init
#define nni_posix_pfd_arm ut_pfd_arm
#define nni_posix_pfd_fd ut_pfd_fd
#define nni_posix_pfd_close ut_pfd_close
#define nni_posix_pfd_stop ut_pfd_stop
#define nni_posix_pfd_fini ut_pfd_fini
#define nni_posix_pollq_sysinit ut_pollq_sysinit
#define nni_posix_pollq_sysfini ut_pollq_sysfini
#define nni_mtx_init hk_mtx_init
#define nni_mtx_fini hk_mtx_fini
#define nni_mtx_lock hk_mtx_lock
#define nni_mtx_unlock hk_mtx_unlock
#define nni_cv_init hk_cv_init
#define nni_cv_wait hk_cv_wait
#define nni_cv_wake hk_cv_wake
#define nni_thr_init hk_thr_init
#define nni_thr_run hk_thr_run
#define nni_thr_fini hk_thr_fini
#define nni_thr_set_name hk_thr_set_name
#define nni_thr_is_self hk_thr_is_self
#define nni_atomic_or hk_atomic_or
#define nni_atomic_and hk_atomic_and
#define nni_atomic_flag_test_and_set hk_flag_tas
#define epoll_create1(f) hk_epoll_create1(f)
#define eventfd(a, b) hk_eventfd(a, b)
#define epoll_ctl(a, b, c, d) hk_epoll_ctl(a, b, c, d)
#define epoll_wait(a, b, c, d) hk_epoll_wait(a, b, c, d)
#define read(a, b, c) hk_read(a, b, c)
#define write(a, b, c) hk_write(a, b, c)
#define shutdown(a, b) hk_shutdown(a, b)
#define close(a) hk_close(a)
#define fcntl(...) 0
#include "platform/posix/posix_pollq_epoll.c"
#undef nni_mtx_init
#undef nni_mtx_fini
#undef nni_mtx_lock
#undef nni_mtx_unlock
#undef nni_cv_init
#undef nni_cv_wait
#undef nni_cv_wake
#undef nni_thr_init
#undef nni_thr_run
#undef nni_thr_fini
#undef nni_thr_set_name
#undef nni_thr_is_self
#undef nni_atomic_or
#undef nni_atomic_and
#undef nni_atomic_flag_test_and_set
#undef epoll_create1
#undef eventfd
#undef epoll_ctl
#undef epoll_wait
#undef read
#undef write
#undef shutdown
#undef close
#undef fcntl

static int
reapq_len(void)
{
	int            q = 0;
	nni_posix_pfd *k;
	if (nni_epoll_pqs == NULL) {
		return (0);
	}
	NNI_LIST_FOREACH (&nni_epoll_pqs->reapq, k) {
		q++;
		if (q > 9) {
			break;
		}
	}
	return (q);
}

static unsigned
op_mask(char op)
{
	return (op == 'i' ? (unsigned) POLLIN : op == 'o' ? (unsigned) POLLOUT : (unsigned) (POLLIN | POLLOUT));
}

static char
rv_letter(int rv)
{
	switch (rv) {
	case 0:
		return ('k');
	case NNG_EEXIST:
		return ('x');
	case NNG_ENOENT:
		return ('n');
	case NNG_ECLOSED:
		return ('b');
	}
	return ('?');
}

// one call of the pfd API by thread t; returns the arm result letter or 0
static char
do_op(int t, char op)
{
	char r      = 0;
	fresh_op[t] = op;
	switch (op) {
	case 'i':
	case 'o':
	case 'b': {
		int rv;
		cur_req[t] = op_mask(op);
		rv         = ut_pfd_arm(P, op_mask(op));
		r          = rv_letter(rv);
		if (rv == 0) {
			g_la = cur_req[t];
		}
		break;
	}
	case 'c':
		ut_pfd_close(P);
		break;
	case 's':
		ut_pfd_stop(P);
		g_sr++;
		break;
	case 'f':
		ut_pfd_fini(P);
		g_fr++;
		break;
	case 'k':
		// environment: the nni_posix_pfd_stop of another pfd on this poller signals it (no access to OUR pfd)
		fresh_op[t] = 0;
		park(t, "write");
		k_evfd++;
		return (0);
	case 'x':
		park(t, "free");
		g_freed = 1;
		g_xr++;
		if (g_incb) {
			g_uaf = 1;
		}
		break;
	default:
		die("bad op");
	}
	cur_op[t] = 0;
	g_nr++;
	return (r);
}

static void
the_cb(void *arg, unsigned events)
{
	int         t = tl_tid;
	const char *s;
	(void) arg;
	if (t != 0) {
		die("callback outside the poller thread");
	}
	park(t, "cb");
	TOUCH();
	if (!k_fdopen) {
		g_badfd = 1;
	}
	g_cm   = events;
	s      = g_cbB < (unsigned) nscript ? script[g_cbB] : "";
	g_incb = 1;
	g_cbB++;
	for (; *s; s++) {
		(void) do_op(t, *s);
	}
	park(t, "cbret");
	g_incb = 0;
	g_cbE++;
}

static void *
client_main(void *arg)
{
	int t  = (int) (intptr_t) arg;
	int i  = t - 1;
	int nr = 0;
	tl_tid = t;
	for (const char *p = prog[i]; *p; p++) {
		char r = do_op(t, *p);
		if (r) {
			res[i][nr++] = r;
			res[i][nr]   = 0;
		}
	}
	finished[t]  = 1;
	next_call[t] = "end";
	sem_post(&ack[t]);
	return (NULL);
}

static int
can_move(int t, unsigned ready)
{
	if (finished[t]) {
		return (0);
	}
	if (waiting[t]) {
		return (woken[t] && mtx_owner == -1);
	}
	if (want[t]) {
		return (mtx_owner == -1);
	}
	if (t == 0 && strcmp(next_call[0], "epoll_wait") == 0) {
		return (k_evfd > 0 || pfd_event_now(ready) != 0);
	}
	return (1);
}

static const char *
tid_name(int t, char *buf)
{
	if (t < 0) {
		return ("-");
	}
	if (t == 0) {
		return ("p");
	}
	sprintf(buf, "c%d", t - 1);
	return (buf);
}

static void
observe(void)
{
	int  live = 0, fin = 1;
	char b1[16], b2[16];
	for (int t = 0; t < nthr; t++) {
		if (can_move(t, 0)) {
			live = 1;
		}
		if (t >= 1 && !finished[t]) {
			fin = 0;
		}
	}
	printf("reg=%d en=%d mask=%u fd=%d nb=%u nr=%u ab=%u kb=%u sb=%u sr=%u fb=%u fr=%u xr=%u pb=%u sec=%d cd=%d hv=%u cbB=%u "
	       "cbE=%u hm=%u cm=%u la=%u uaf=%d badfd=%d regc=%d live=%d fin=%d res=",
	    k_reg, k_en, k_mask, k_fdopen, g_nb, g_nr, g_ab, g_kb, g_sb, g_sr, g_fb, g_fr, g_xr, g_pb, g_sect >= 0, g_cd, g_hv,
	    g_cbB, g_cbE, g_hm & EVMASK, g_cm & EVMASK, g_la, g_uaf, g_badfd, g_regc, live, fin);
	if (nc == 0) {
		printf("none");
	}
	for (int i = 0; i < nc; i++) {
		printf("%s%s", i ? "," : "", res[i][0] ? res[i] : "-");
	}
	printf(" ev=%d add=%d clg=%d stp=%d rq=%d mtx=%s efd=%llu shut=%d", nni_atomic_get(&P->events) & EVMASK, P->added ? 1 : 0,
	    sh_closing, sh_stopped, reapq_len(), tid_name(mtx_owner, b1), (unsigned long long) k_evfd, k_shut);
	(void) b2;
	if (lockbad) {
		printf(" lockbad=1");
	}
	printf(" next=%s|", next_call[0]);
	for (int t = 1; t < nthr; t++) {
		printf("%s%s", t > 1 ? "," : "", next_call[t]);
	}
	printf("\n");
}

static void
teardown(void)
{
	if (!active) {
		return;
	}
	kill_all = 1;
	for (int t = 0; t < nthr; t++) {
		if (started_thr[t]) {
			if (!finished[t]) {
				sem_post(&go[t]); // pthread_exit from its park point (it holds no real resource)
			}
			pthread_join(thr[t], NULL);
			sem_destroy(&go[t]);
			sem_destroy(&ack[t]);
			started_thr[t] = 0;
		}
	}
	kill_all = 0;
	if (nni_epoll_pqs != NULL) {
		NNI_FREE_STRUCTS(nni_epoll_pqs, nni_epoll_npq);
		nni_epoll_pqs = NULL;
		nni_epoll_npq = 0;
	}
	free(P);
	P      = NULL;
	active = 0;
}

static int
parse_words(char *w, char out[][MAXPROG + 1], int max)
{
	int   n    = 0;
	char *save = NULL;
	if (strcmp(w, "none") == 0) {
		return (0);
	}
	for (char *x = strtok_r(w, ",", &save); x != NULL && n < max; x = strtok_r(NULL, ",", &save)) {
		out[n][0] = 0;
		if (strcmp(x, "-") != 0) {
			strncpy(out[n], x, MAXPROG);
			out[n][MAXPROG] = 0;
		}
		n++;
	}
	return (n);
}

static void
do_init(void)
{
	nng_init_params params;
	teardown();
	nc      = parse_words(vw[1], prog, NCMAX);
	nscript = parse_words(vw[2], script, MAXSCR);
	nthr    = nc + 1;
	k_reg = k_en = k_shut = 0;
	k_fdopen              = 1;
	k_mask                = 0;
	k_evfd                = 0;
	g_nb = g_nr = g_ab = g_kb = g_sb = g_sr = g_fb = g_fr = g_xr = g_pb = g_hv = g_cbB = g_cbE = 0;
	g_hm = g_cm = g_la = 0;
	g_sect             = -1;
	g_cd = g_uaf = g_badfd = g_regc = g_freed = g_incb = 0;
	sh_closing = sh_stopped = 0;
	lockbad                 = 0;
	mtx_owner               = -1;
	for (int t = 0; t < NTMAX; t++) {
		finished[t]  = 0;
		next_call[t] = "?";
		waiting[t] = woken[t] = want[t] = 0;
		fresh_op[t] = cur_op[t] = 0;
	}
	for (int i = 0; i < NCMAX; i++) {
		res[i][0] = 0;
	}
	memset(&params, 0, sizeof(params));
	params.num_poller_threads = 1;
	params.max_poller_threads = 1;
	if (ut_pollq_sysinit(&params) != 0) {
		die("nni_posix_pollq_sysinit failed");
	}
	P = calloc(1, sizeof(*P));
	ut_pfd_init(P, PFD_FD, the_cb, P);
	for (int t = 1; t < nthr; t++) {
		sem_init(&go[t], 0, 0);
		sem_init(&ack[t], 0, 0);
		pthread_create(&thr[t], NULL, client_main, (void *) (intptr_t) t);
		started_thr[t] = 1;
		sem_wait(&ack[t]); // parked at its first hook (or finished)
	}
	active = 1;
	observe();
}

static unsigned
parse_ready(const char *w)
{
	unsigned r = 0;
	for (; *w; w++) {
		switch (*w) {
		case 'i':
			r |= POLLIN;
			break;
		case 'o':
			r |= POLLOUT;
			break;
		case 'e':
			r |= POLLERR;
			break;
		case 'h':
			r |= POLLHUP;
			break;
		}
	}
	return (r);
}

static void
do_step(void)
{
	int         t = -1;
	const char *w = vw[1];
	if (!active) {
		printf("bad-op\n");
		return;
	}
	if (strcmp(w, "p") == 0) {
		t = 0;
	} else if (w[0] == 'c' && isdigit((unsigned char) w[1])) {
		t = atoi(w + 1);
		t = t < nc ? t + 1 : -1;
	} else {
		printf("bad-op\n");
		return;
	}
	cur_ready     = vn > 2 ? parse_ready(vw[2]) : 0;
	cur_wakefirst = !(vn > 3 && strcmp(vw[3], "f") == 0);
	if (t >= 0 && can_move(t, cur_ready)) {
		sem_post(&go[t]);
		sem_wait(&ack[t]);
	}
	observe();
}

int
main(void)
{
	setvbuf(stdout, NULL, _IOFBF, 1 << 16);
	while (next_line()) {
		if (vn == 0) {
			continue;
		}
		if (strcmp(vw[0], "reset") == 0) {
			teardown();
			printf("reset\n");
		} else if (strcmp(vw[0], "init") == 0 && vn >= 3) {
			do_init();
		} else if (strcmp(vw[0], "step") == 0 && vn >= 2) {
			do_step();
		} else {
			printf("bad-op\n");
		}
	}
	teardown();
	fflush(stdout);
	return (0);
}
