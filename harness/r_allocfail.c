// C20 support (REAL executor, real threads and real transports): one small API program with the k-th
// allocation failing.
//   r_allocfail <inproc|ipc|tcp|ws> <k>
// Program: nng_init (accounting allocator of valloc.c installed through nng_init_params), open REP + REQ,
// timeouts, listen (ephemeral port / private path), synchronous dial, one request/reply exchange, a
// statistics snapshot, close both sockets, nng_fini, allocator balance.  k = 0: no failure (prints the
// number of allocations: the sweep range).  The failure is armed BEFORE nng_init, so library start-up is
// part of the sweep.  Output: one line `<step> <rv>` per API call made and finally
//   fini live=<blocks> badfree=<n> allocs=<n> fired=<n>
// A step whose precondition failed is skipped.  Real threads: which allocation is the k-th is not
// deterministic (background threads allocate too); this is a search, a finding is replayed by repeating
// the same (transport, k) a few times.  Watchdog: 30 s of wall time => "HANG", exit 4.
#include <nng/nng.h>

#include <signal.h>
#include <stdio.h>
#include <stdlib.h>
#include <string.h>
#include <unistd.h>

#include "valloc.h"

static void
on_alarm(int sig)
{
	(void) sig;
	static const char msg[] = "HANG\n";
	(void) !write(1, msg, sizeof(msg) - 1);
	_exit(4);
}

static int
step(const char *what, int rv)
{
	printf("%s %d\n", what, rv);
	return (rv);
}

int
main(int argc, char **argv)
{
	nng_init_params ip;
	nng_socket      rep = NNG_SOCKET_INITIALIZER, req = NNG_SOCKET_INITIALIZER;
	nng_listener    l;
	bool            rep_open = false, req_open = false, listening = false, dialed = false;
	char            url[128], path[64];
	unsigned long   live, bytes, bad, tot;
	const char     *tran;
	long            k;

	if (argc != 3) {
		fprintf(stderr, "usage: r_allocfail <inproc|ipc|tcp|ws> <k>\n");
		return (2);
	}
	tran = argv[1];
	// "<transport>-nb": the requester dials in the BACKGROUND (NNG_FLAG_NONBLOCK): a failure inside the background dial
	// must leave the dialer able to redial by itself
	static char tranbuf[32];
	bool        nb = false;
	if (strlen(tran) > 3 && strcmp(tran + strlen(tran) - 3, "-nb") == 0 && strlen(tran) < sizeof(tranbuf)) {
		snprintf(tranbuf, sizeof(tranbuf), "%.*s", (int) strlen(tran) - 3, tran);
		tran = tranbuf;
		nb   = true;
	}
	// "<transport>-crowd": five more sockets are opened first, so that the id maps of the library (sockets, and with them
	// contexts / pipes of the later steps) GROW while the swept calls run - an id map resizes at its sixth entry - and the
	// crowd is queried and closed at the end (a map damaged by a failed resize shows there)
	bool       crowd = false;
	nng_socket extra[5];
	bool       extra_open[5] = { false, false, false, false, false };
	if (strlen(tran) > 6 && strcmp(tran + strlen(tran) - 6, "-crowd") == 0 && strlen(tran) < sizeof(tranbuf)) {
		snprintf(tranbuf, sizeof(tranbuf), "%.*s", (int) strlen(tran) - 6, tran);
		tran  = tranbuf;
		crowd = true;
	}
	k    = atol(argv[2]);
	setvbuf(stdout, NULL, _IOLBF, 0);
	signal(SIGALRM, on_alarm);
	alarm(30);
	path[0] = 0;

	memset(&ip, 0, sizeof(ip));
	ip.malloc_fn = valloc_malloc;
	ip.calloc_fn = valloc_calloc;
	ip.free_fn   = valloc_free;
	valloc_fail_at(k);
	if (step("init", nng_init(&ip)) != 0) {
		goto out; // nothing was started: nothing to stop
	}
	for (int i = 0; crowd && i < 5; i++) {
		extra_open[i] = step("extra_open", nng_pair0_open(&extra[i])) == 0;
	}
	rep_open = step("rep_open", nng_rep0_open(&rep)) == 0;
	req_open = step("req_open", nng_req0_open(&req)) == 0;
	if (rep_open) {
		step("rep_recvtimeo", nng_socket_set_ms(rep, NNG_OPT_RECVTIMEO, 400));
		step("rep_sendtimeo", nng_socket_set_ms(rep, NNG_OPT_SENDTIMEO, 400));
	}
	if (req_open) {
		step("req_recvtimeo", nng_socket_set_ms(req, NNG_OPT_RECVTIMEO, 400));
		step("req_sendtimeo", nng_socket_set_ms(req, NNG_OPT_SENDTIMEO, 400));
	}
	if (strcmp(tran, "inproc") == 0) {
		snprintf(url, sizeof(url), "inproc://allocfail-%d", (int) getpid());
	} else if (strcmp(tran, "ipc") == 0) {
		snprintf(path, sizeof(path), "/tmp/r_allocfail-%d.ipc", (int) getpid());
		snprintf(url, sizeof(url), "ipc://%s", path);
	} else if (strcmp(tran, "ws") == 0) {
		snprintf(url, sizeof(url), "ws://127.0.0.1:0/af");
	} else if (strcmp(tran, "udp") == 0) {
		snprintf(url, sizeof(url), "udp://127.0.0.1:0");
	} else {
		snprintf(url, sizeof(url), "tcp://127.0.0.1:0");
	}
	if (rep_open) {
		listening = step("listen", nng_listen(rep, url, &l, 0)) == 0;
	}
	if (listening && (strcmp(tran, "tcp") == 0 || strcmp(tran, "ws") == 0 || strcmp(tran, "udp") == 0)) {
		int port = 0;
		if (step("bound_port", nng_listener_get_int(l, NNG_OPT_BOUND_PORT, &port)) != 0 || port == 0) {
			listening = false;
		}
		snprintf(url, sizeof(url), "%s://127.0.0.1:%d%s", tran, port, strcmp(tran, "ws") == 0 ? "/af" : "");
	}
	if (req_open && listening) {
		if (!nb) {
			dialed = step("dial", nng_dial(req, url, NULL, 0)) == 0;
		} else if (step("dial", nng_dial(req, url, NULL, NNG_FLAG_NONBLOCK)) == 0) {
			// the dialer connects (or, after a failed attempt, redials) by itself: a request must get through within 3 s
			// (REQ queues the request until a pipe is there)
			nng_socket_set_ms(req, NNG_OPT_SENDTIMEO, 3000);
			nng_socket_set_ms(req, NNG_OPT_RECVTIMEO, 3000);
			nng_socket_set_ms(rep, NNG_OPT_RECVTIMEO, 3000);
			nng_socket_set_ms(req, NNG_OPT_REQ_RESENDTIME, 200);
			dialed = true;
		}
	}
	if (dialed) {
		nng_msg *m = NULL, *r = NULL;
		if (step("req_send", nng_send(req, "ping", 5, 0)) == 0 && step("rep_recv", nng_recvmsg(rep, &m, 0)) == 0) {
			if (nng_msg_len(m) != 5 || memcmp(nng_msg_body(m), "ping", 5) != 0) {
				printf("corrupt request\n");
			}
			if (step("rep_send", nng_sendmsg(rep, m, 0)) != 0) {
				nng_msg_free(m);
			} else if (step("req_recv", nng_recvmsg(req, &r, 0)) == 0) {
				if (nng_msg_len(r) != 5 || memcmp(nng_msg_body(r), "ping", 5) != 0) {
					printf("corrupt reply\n");
				}
				nng_msg_free(r);
			}
		}
	}
	// "... and does not leave the object in a state where later calls misbehave": with the failure over, a FRESH
	// requester must be able to connect to the same listener and get an answer from the same REP socket
	if (rep_open && listening && valloc_failures_fired() > 0) {
		nng_socket req2;
		valloc_fail_at(0);
		if (step("after_open", nng_req0_open(&req2)) == 0) {
			nng_msg *m = NULL, *r = NULL;
			int      rv;
			nng_socket_set_ms(req2, NNG_OPT_RECVTIMEO, 3000);
			nng_socket_set_ms(req2, NNG_OPT_SENDTIMEO, 3000);
			nng_socket_set_ms(rep, NNG_OPT_RECVTIMEO, 3000);
			// the listener may be in its 10 ms cool-down after a failed accept: a refused/reset first attempt
			// is retried for a second
			for (int i = 0; (rv = nng_dial(req2, url, NULL, 0)) != 0 && i < 20; i++) {
				nng_msleep(50);
			}
			if (step("after_dial", rv) == 0 && step("after_req_send", nng_send(req2, "pong", 5, 0)) == 0) {
				// a request of the first requester may still be queued in front of ours
				// (requests of the first requester - resent ones too - may be queued in front of ours)
				for (int i = 0;; i++) {
					rv = nng_recvmsg(rep, &m, 0);
					if (rv != 0 || (nng_msg_len(m) == 5 && memcmp(nng_msg_body(m), "pong", 5) == 0)) {
						break;
					}
					nng_msg_free(m);
					m = NULL;
					if (i >= 40) {
						rv = NNG_ETIMEDOUT;
						break;
					}
				}
				if (step("after_rep_recv", rv) == 0) {
					if (step("after_rep_send", nng_sendmsg(rep, m, 0)) != 0) {
						nng_msg_free(m);
					} else if (step("after_req_recv", nng_recvmsg(req2, &r, 0)) == 0) {
						if (nng_msg_len(r) != 5 || memcmp(nng_msg_body(r), "pong", 5) != 0) {
							printf("corrupt reply\n");
						}
						nng_msg_free(r);
					}
				}
			}
			step("after_close", nng_socket_close(req2));
		}
	}
	{
		nng_stat *st = NULL;
		if (step("stats", nng_stats_get(&st)) == 0) {
			nng_stats_free(st);
		}
	}
	for (int i = 0; crowd && i < 5; i++) {
		if (extra_open[i]) {
			int v = 0;
			step("extra_get", nng_socket_get_int(extra[i], NNG_OPT_RECVBUF, &v));
		}
	}
	if (req_open) {
		step("req_close", nng_socket_close(req));
	}
	if (rep_open) {
		step("rep_close", nng_socket_close(rep));
	}
	for (int i = 0; crowd && i < 5; i++) {
		if (extra_open[i]) {
			step("extra_close", nng_socket_close(extra[i]));
		}
	}
	nng_fini();
out:
	valloc_fail_at(0);
	valloc_stats(&live, &bytes, &bad, &tot);
	printf("fini live=%lu badfree=%lu allocs=%lu fired=%lu\n", live, bad, tot, valloc_failures_fired());
	if (live != 0) {
		valloc_dump_live(); // only with VALLOC_LEAKS=1
	}
	if (path[0]) {
		unlink(path);
	}
	return (0);
}
