#include "valloc.h"

#include <pthread.h>
#include <stdint.h>
#include <stdio.h>
#include <stdlib.h>
#include <string.h>

#define TAB (1u << 18)
static struct {
	void  *p;
	size_t sz;
} tab[TAB];
static pthread_mutex_t m = PTHREAD_MUTEX_INITIALIZER;
static unsigned long   live, bytes, badfree, total, fired;
static long            fail_in;

// VALLOC_LEAKS=1: remember where every block was allocated, valloc_dump_live() prints the
// allocation backtraces of the blocks still held (diagnosis of a non-zero balance)
#include <execinfo.h>
#define BTN 14
static void *(*bts)[BTN];
static int    bt_on = -1;

static unsigned
slot(void *p)
{
	return ((unsigned) (((uintptr_t) p >> 4) * 2654435761u)) & (TAB - 1);
}

static void
ins(void *p, size_t sz)
{
	unsigned h = slot(p);
	while (tab[h].p != NULL && tab[h].p != (void *) 1) {
		h = (h + 1) & (TAB - 1);
	}
	tab[h].p  = p;
	tab[h].sz = sz;
	if (bt_on < 0) {
		bt_on = getenv("VALLOC_LEAKS") != NULL;
		if (bt_on) {
			bts = calloc(TAB, sizeof(*bts));
		}
	}
	if (bt_on && bts != NULL) {
		memset(bts[h], 0, sizeof(bts[h]));
		backtrace(bts[h], BTN);
	}
	live++;
	bytes += sz;
}

static int
should_fail(void)
{
	total++;
	if (fail_in > 0 && --fail_in == 0) {
		fired++;
		if (getenv("VALLOC_LEAKS") != NULL) {
			void *bt[BTN];
			int   n = backtrace(bt, BTN);
			fprintf(stderr, "VALLOC: allocation %lu fails at\n", total);
			backtrace_symbols_fd(bt, n, 2);
		}
		return (1);
	}
	return (0);
}

void *
valloc_malloc(size_t sz)
{
	void *p;
	pthread_mutex_lock(&m);
	if (should_fail()) {
		pthread_mutex_unlock(&m);
		return (NULL);
	}
	p = malloc(sz);
	if (p) {
		ins(p, sz);
	}
	pthread_mutex_unlock(&m);
	return (p);
}

void *
valloc_calloc(size_t n, size_t sz)
{
	void *p;
	pthread_mutex_lock(&m);
	if (should_fail()) {
		pthread_mutex_unlock(&m);
		return (NULL);
	}
	p = calloc(n, sz);
	if (p) {
		ins(p, n * sz);
	}
	pthread_mutex_unlock(&m);
	return (p);
}

void
valloc_free(void *p, size_t sz)
{
	if (p == NULL) {
		return;
	}
	pthread_mutex_lock(&m);
	unsigned h = slot(p);
	unsigned n = 0;
	while (tab[h].p != NULL && n < TAB) {
		if (tab[h].p == p) {
			if (tab[h].sz != sz) {
				badfree++; // freed with a size different from the allocation
				if (getenv("VALLOC_DEBUG")) {
					fprintf(stderr, "VALLOC: block %p allocated with %zu freed with %zu\n", p, tab[h].sz, sz);
					if (getenv("VALLOC_DEBUG")[0] == 0x74) __builtin_trap();
				}
			}
			live--;
			bytes -= tab[h].sz;
			tab[h].p = (void *) 1; // tombstone
			pthread_mutex_unlock(&m);
			free(p);
			return;
		}
		h = (h + 1) & (TAB - 1);
		n++;
	}
	badfree++; // not a block we handed out (or double free)
	if (getenv("VALLOC_DEBUG")) {
		fprintf(stderr, "VALLOC: free of unknown block %p size %zu\n", p, sz);
		if (getenv("VALLOC_DEBUG")[0] == 0x74) __builtin_trap();
	}
	pthread_mutex_unlock(&m);
}

void
valloc_stats(unsigned long *l, unsigned long *b, unsigned long *bf, unsigned long *t)
{
	pthread_mutex_lock(&m);
	*l  = live;
	*b  = bytes;
	*bf = badfree;
	*t  = total;
	pthread_mutex_unlock(&m);
}

void
valloc_fail_at(long k)
{
	pthread_mutex_lock(&m);
	fail_in = k;
	pthread_mutex_unlock(&m);
}

unsigned long
valloc_failures_fired(void)
{
	return (fired);
}

void
valloc_reset_counters(void)
{
	pthread_mutex_lock(&m);
	badfree = 0;
	total   = 0;
	pthread_mutex_unlock(&m);
}

void
valloc_dump_live(void)
{
	if (bts == NULL) {
		return;
	}
	for (unsigned h = 0; h < TAB; h++) {
		if (tab[h].p != NULL && tab[h].p != (void *) 1) {
			int n = 0;
			while (n < BTN && bts[h][n] != NULL) {
				n++;
			}
			fprintf(stderr, "VALLOC: live block %p size %zu allocated at\n", tab[h].p, tab[h].sz);
			backtrace_symbols_fd(bts[h] + 2, n > 2 ? n - 2 : 0, 2);
		}
	}
}
