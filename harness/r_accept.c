// REAL probe for C14 ("after accepting a connection or hitting a transient accept error a listener is ready for the
// next connection") on the real transports, public API only.
//
//   r_accept burst <url> <k>     a PULL listener whose ADD_PRE callback holds the FIRST pipe for 250 ms; k PUSH
//                                sockets dial at the same moment from k threads and send one message each; every
//                                connection must surface on the listener (ADD_POST) and every message must arrive
//   r_accept garbage <url>       (tcp only) a raw peer connects, sends 8 bytes that are no SP header and hangs up;
//                                right after (inside the listener's cool-down) a PUSH socket dials and sends: its
//                                connection must surface and its message must arrive
// output: accept <how> url=<..> k=<k> dialed=<dials that returned 0> pre=<n> post=<n> got=<distinct messages> ; exit 0
#include <nng/nng.h>
#include <pthread.h>
#include <stdio.h>
#include <stdlib.h>
#include <string.h>
#include <unistd.h>
#include <arpa/inet.h>
#include <netinet/in.h>
#include <sys/socket.h>

#define KMAX 8
static volatile int npre, npost;
static int          hold_first = 1;
static const char  *url;
static char         dial_url[256];
static nng_socket   pushers[KMAX];
static int          dial_rv[KMAX];

static void
pipe_cb(nng_pipe p, nng_pipe_ev ev, void *arg)
{
	(void) p;
	(void) arg;
	if (ev == NNG_PIPE_EV_ADD_PRE) {
		int n = __sync_add_and_fetch(&npre, 1);
		if (n == 1 && hold_first) {
			nng_msleep(250);
		}
	} else if (ev == NNG_PIPE_EV_ADD_POST) {
		__sync_add_and_fetch(&npost, 1);
	}
}

static void *
dial_thread(void *arg)
{
	int      i = (int) (intptr_t) arg;
	nng_msg *m;
	dial_rv[i] = nng_dial(pushers[i], dial_url, NULL, 0);
	if (dial_rv[i] == 0 && nng_msg_alloc(&m, 0) == 0) {
		nng_msg_append_u32(m, (uint32_t) i + 1);
		nng_socket_set_ms(pushers[i], NNG_OPT_SENDTIMEO, 8000);
		if (nng_sendmsg(pushers[i], m, 0) != 0) {
			nng_msg_free(m);
		}
	}
	return (NULL);
}

int
main(int argc, char **argv)
{
	nng_socket   pull;
	nng_listener l;
	pthread_t    th[KMAX];
	int          k, got = 0, seen[KMAX + 1] = { 0 }, dialed = 0, port = 0;
	const char  *how;
	if (argc < 3) {
		return (2);
	}
	how = argv[1];
	url = argv[2];
	k   = argc > 3 ? atoi(argv[3]) : 1;
	if (k < 1 || k > KMAX) {
		k = KMAX;
	}
	nng_init(NULL);
	if (nng_pull0_open(&pull) != 0) {
		return (3);
	}
	nng_pipe_notify(pull, NNG_PIPE_EV_ADD_PRE, pipe_cb, NULL);
	nng_pipe_notify(pull, NNG_PIPE_EV_ADD_POST, pipe_cb, NULL);
	if (nng_listener_create(&l, pull, url) != 0 || nng_listener_start(l, 0) != 0) {
		printf("accept %s url=%s listen-failed\n", how, url);
		return (3);
	}
	snprintf(dial_url, sizeof(dial_url), "%s", url);
	if (strncmp(url, "tcp://", 6) == 0 || strncmp(url, "ws://", 5) == 0) {
		// the listener was started on port 0: dial the port it was given
		if (nng_listener_get_int(l, NNG_OPT_BOUND_PORT, &port) == 0 && port > 0) {
			const char *colon = strrchr(url, ':');
			const char *slash = colon ? strchr(colon, '/') : NULL;
			snprintf(dial_url, sizeof(dial_url), "%.*s:%d%s", (int) (colon - url), url, port, slash ? slash : "");
		}
	}
	if (strcmp(how, "garbage") == 0) {
		struct sockaddr_in sa;
		int                fd = socket(AF_INET, SOCK_STREAM, 0);
		hold_first            = 0;
		k                     = 1;
		memset(&sa, 0, sizeof(sa));
		sa.sin_family      = AF_INET;
		sa.sin_port        = htons((uint16_t) port);
		sa.sin_addr.s_addr = htonl(INADDR_LOOPBACK);
		if (fd < 0 || connect(fd, (struct sockaddr *) &sa, sizeof(sa)) != 0) {
			printf("accept %s url=%s raw-connect-failed\n", how, url);
			return (3);
		}
		(void) !write(fd, "GARBAGE!", 8);
		nng_msleep(20);
		close(fd);
		nng_msleep(10);
	}
	for (int i = 0; i < k; i++) {
		if (nng_push0_open(&pushers[i]) != 0) {
			return (3);
		}
	}
	for (int i = 0; i < k; i++) {
		pthread_create(&th[i], NULL, dial_thread, (void *) (intptr_t) i);
	}
	nng_socket_set_ms(pull, NNG_OPT_RECVTIMEO, 8000);
	for (int i = 0; i < k; i++) {
		nng_msg *m;
		uint32_t v;
		if (nng_recvmsg(pull, &m, 0) != 0) {
			break;
		}
		if (nng_msg_trim_u32(m, &v) == 0 && v >= 1 && v <= (uint32_t) k && !seen[v]) {
			seen[v] = 1;
			got++;
		}
		nng_msg_free(m);
	}
	for (int i = 0; i < k; i++) {
		pthread_join(th[i], NULL);
		if (dial_rv[i] == 0) {
			dialed++;
		}
	}
	printf("accept %s url=%s k=%d dialed=%d pre=%d post=%d got=%d\n", how, url, k, dialed, npre, npost, got);
	fflush(stdout);
	for (int i = 0; i < k; i++) {
		nng_socket_close(pushers[i]);
	}
	nng_socket_close(pull);
	nng_fini();
	return (0);
}
