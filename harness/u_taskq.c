// UNIT harness for src/core/taskq.c (C02, task layer): deterministic replay of thread schedules on
// the REAL code.
//
// The real taskq.c is #included below with every call it makes into the thread layer renamed to a
// hook: nni_mtx_lock/unlock, nni_cv_wait/wake/wake1, nni_thr_init/run/fini (the worker threads
// nni_taskq_thread are created here), and nni_list_append (to see the nni_panic of a double append
// instead of dying from it).  A hook parks the calling thread on a semaphore (baton) BEFORE it
// acquires a mutex, so the schedule decides the order of all critical sections: one `step <t>` =
// thread t acquires the mutex it is parked at, runs its critical section (thread-local from the
// point of view of the other threads, which are all parked outside every critical section) and on
// to its next park point.  The task callback parks at its begin and at its end (it runs outside
// every lock).  nni_cv_wait releases the (tracked) mutex and parks until a wake on that condition
// variable marked the thread; re-acquiring the mutex and re-testing the loop condition is then a
// step of its own.  nni_cv_wake1 wakes the waiter named by the step (`pick`), else the first.
// That is exactly one step of lean/NngModel/Model/Taskq.lean.
//
// line protocol (one observation line out per line in):
//   init <hasCb> <W> <progs>     W worker threads (nni_taskq_init), one client thread per program;
//                                progs = comma separated words over p (nni_task_prep) d (dispatch)
//                                x (exec) w (wait) b (busy); `-` = empty program, `none` = no client;
//                                hasCb = 0: the task has a NULL callback
//   step <w<j>|c<i>> [pick]
//   reset                        end of case: all threads are discarded, the queue is destroyed
// observation: busy=<task_busy> sd sx pr bw bx ce dn (ghost counters, see Spec/Taskq.lean) panic live fin
//              res=<per client: w wait returned, t/f busy result> prep=<task_prep> q=<task on run list>
//              next=<park point of each worker>|<of each client>
#include "core/nng_impl.h"

#include <pthread.h>
#include <semaphore.h>

#include "common.h"

#define NWMAX 8
#define NCMAX 8
#define NTMAX (NWMAX + NCMAX)
#define MAXPROG 64

// ---- baton ----
static sem_t        go[NTMAX], ack[NTMAX];
static pthread_t    thr[NTMAX];
static int          started_thr[NTMAX];
static int          nw, nc, nthr;
static const char  *next_call[NTMAX];
static int          finished[NTMAX];
static volatile int kill_all;
static __thread int tl_tid = -1;

// ---- tracked mutexes / condition variables (no real locking: one thread runs at a time) ----
typedef struct {
	void *addr;
	int   owner; // -1 free
} tmtx;
typedef struct {
	void *addr;
	tmtx *mtx;
} tcv;
static tmtx  mtxs[8];
static tcv   cvs[8];
static int   nmtx, ncv;
static tcv  *waiting[NTMAX];
static int   woken[NTMAX];
static tmtx *want[NTMAX]; // the mutex thread t is parked at
static int   lockbad;     // unlock by a non-owner, wait without the mutex, ...
static int   pick_arg = -1;

// ---- ghost counters ----
static unsigned sd, sx, pr, bw, bx, ce, dn;
static int      panicked;
static int      has_cb;
static char     fresh_op[NTMAX];
static int      after_cb[NTMAX];
static char     res[NCMAX][MAXPROG + 1];

static const char *mtx_name(void *addr);
static const char *cv_name(void *addr);

static void
die(const char *msg)
{
	fflush(stdout);
	fprintf(stderr, "u_taskq: %s\n", msg);
	abort();
}

static void
park(int t, const char *name)
{
	if (name != NULL) {
		next_call[t] = name;
	}
	sem_post(&ack[t]);
	sem_wait(&go[t]);
	if (kill_all) {
		pthread_exit(NULL);
	}
}

static tmtx *
find_mtx(void *addr)
{
	for (int i = 0; i < nmtx; i++) {
		if (mtxs[i].addr == addr) {
			return (&mtxs[i]);
		}
	}
	die("unknown mutex");
	return (NULL);
}

static tcv *
find_cv(void *addr)
{
	for (int i = 0; i < ncv; i++) {
		if (cvs[i].addr == addr) {
			return (&cvs[i]);
		}
	}
	die("unknown cv");
	return (NULL);
}

static void
hk_mtx_init(nni_mtx *m)
{
	if (nmtx >= 8) {
		die("too many mutexes");
	}
	mtxs[nmtx].addr  = m;
	mtxs[nmtx].owner = -1;
	nmtx++;
}

static void
hk_mtx_fini(nni_mtx *m)
{
	(void) m;
}

static void
hk_cv_init(nni_cv *cv, nni_mtx *m)
{
	if (ncv >= 8) {
		die("too many cvs");
	}
	cvs[ncv].addr = cv;
	cvs[ncv].mtx  = find_mtx(m);
	ncv++;
}

static void
hk_cv_fini(nni_cv *cv)
{
	(void) cv;
}

static void
hk_mtx_lock(nni_mtx *m)
{
	int   t  = tl_tid;
	tmtx *tm = find_mtx(m);
	if (t < 0) {
		return; // harness main thread (init / teardown): nobody else is inside a critical section
	}
	want[t] = tm;
	park(t, mtx_name(m)); // main releases us only if the mutex is free
	want[t] = NULL;
	if (tm->owner != -1) {
		lockbad = 1;
	}
	tm->owner = t;
	// ghost: the call / the completion this critical section belongs to
	switch (fresh_op[t]) {
	case 'p':
		pr++;
		break;
	case 'd':
		sd++;
		if (!has_cb) {
			bw++, ce++, dn++;
		}
		break;
	case 'x':
		sx++;
		if (!has_cb) {
			bx++, ce++, dn++;
		}
		break;
	}
	fresh_op[t] = 0;
	if (after_cb[t]) {
		after_cb[t] = 0;
		dn++;
	}
}

static void
hk_mtx_unlock(nni_mtx *m)
{
	int   t  = tl_tid;
	tmtx *tm = find_mtx(m);
	if (t < 0) {
		return;
	}
	if (tm->owner != t) {
		lockbad = 1;
	}
	tm->owner = -1;
}

static void
hk_cv_wait(nni_cv *cv)
{
	int  t = tl_tid;
	tcv *c = find_cv(cv);
	if (t < 0) {
		die("harness main thread would block in nni_cv_wait");
	}
	if (c->mtx->owner != t) {
		lockbad = 1;
	}
	c->mtx->owner = -1;
	waiting[t]    = c;
	woken[t]      = 0;
	park(t, cv_name(cv)); // main releases us only when woken and the mutex is free
	waiting[t] = NULL;
	if (c->mtx->owner != -1) {
		lockbad = 1;
	}
	c->mtx->owner = t;
}

static void
wake_thread(int t, tcv *c)
{
	woken[t]     = 1;
	next_call[t] = mtx_name(c->mtx->addr);
}

static void
hk_cv_wake(nni_cv *cv)
{
	tcv *c = find_cv(cv);
	for (int t = 0; t < nthr; t++) {
		if (waiting[t] == c && !woken[t]) {
			wake_thread(t, c);
		}
	}
}

static void
hk_cv_wake1(nni_cv *cv)
{
	tcv *c = find_cv(cv);
	int  p = pick_arg;
	if (p >= 0 && p < nthr && waiting[p] == c && !woken[p]) {
		wake_thread(p, c);
		return;
	}
	for (int t = 0; t < nthr; t++) {
		if (waiting[t] == c && !woken[t]) {
			wake_thread(t, c);
			return;
		}
	}
}

// ---- worker thread creation ----
static struct {
	nni_thr     *key;
	nni_thr_func fn;
	void        *arg;
} wthr[NWMAX];
static int nwthr;

static void *
worker_main(void *arg)
{
	int j  = (int) (intptr_t) arg;
	tl_tid = j;
	wthr[j].fn(wthr[j].arg);
	// nni_taskq_thread returned (tq_run false): does not happen while a case runs
	finished[j]  = 1;
	next_call[j] = "exit";
	sem_post(&ack[j]);
	return (NULL);
}

static int
hk_thr_init(nni_thr *t, nni_thr_func fn, void *arg)
{
	if (nwthr >= NWMAX) {
		die("too many worker threads");
	}
	wthr[nwthr].key = t;
	wthr[nwthr].fn  = fn;
	wthr[nwthr].arg = arg;
	nwthr++;
	return (0);
}

static void
hk_thr_run(nni_thr *t)
{
	for (int j = 0; j < nwthr; j++) {
		if (wthr[j].key == t) {
			sem_init(&go[j], 0, 0);
			sem_init(&ack[j], 0, 0);
			pthread_create(&thr[j], NULL, worker_main, (void *) (intptr_t) j);
			started_thr[j] = 1;
			sem_wait(&ack[j]); // parked at its first nni_mtx_lock
			return;
		}
	}
	die("nni_thr_run of an unknown thread");
}

static void
hk_thr_fini(nni_thr *t)
{
	(void) t; // the harness has already joined its threads
}

static void
hk_thr_set_name(nni_thr *t, const char *name)
{
	(void) t;
	(void) name;
}

static void hk_list_append(nni_list *l, void *item);

// ---- the real code, with its thread-layer calls routed through the hooks ----
#define nni_taskq_init ut_taskq_init
#define nni_taskq_fini ut_taskq_fini
#define nni_taskq_drain ut_taskq_drain
#define nni_task_exec ut_task_exec
#define nni_task_dispatch ut_task_dispatch
#define nni_task_prep ut_task_prep
#define nni_task_wait ut_task_wait
#define nni_task_busy ut_task_busy
#define nni_task_init ut_task_init
#define nni_task_fini ut_task_fini
#define nni_taskq_sys_init ut_taskq_sys_init
#define nni_taskq_sys_drain ut_taskq_sys_drain
#define nni_taskq_sys_fini ut_taskq_sys_fini
#define nni_mtx_init hk_mtx_init
#define nni_mtx_fini hk_mtx_fini
#define nni_mtx_lock hk_mtx_lock
#define nni_mtx_unlock hk_mtx_unlock
#define nni_cv_init hk_cv_init
#define nni_cv_fini hk_cv_fini
#define nni_cv_wait hk_cv_wait
#define nni_cv_wake hk_cv_wake
#define nni_cv_wake1 hk_cv_wake1
#define nni_thr_init hk_thr_init
#define nni_thr_run hk_thr_run
#define nni_thr_fini hk_thr_fini
#define nni_thr_set_name hk_thr_set_name
#define nni_list_append hk_list_append
#include "core/taskq.c"
#undef nni_mtx_init
#undef nni_mtx_fini
#undef nni_mtx_lock
#undef nni_mtx_unlock
#undef nni_cv_init
#undef nni_cv_fini
#undef nni_cv_wait
#undef nni_cv_wake
#undef nni_cv_wake1
#undef nni_thr_init
#undef nni_thr_run
#undef nni_thr_fini
#undef nni_thr_set_name
#undef nni_list_append

static nni_task   T;
static nni_taskq *TQ;
static char       prog[NCMAX][MAXPROG + 1];
static int        active;

static const char *
mtx_name(void *addr)
{
	return (addr == (void *) &T.task_mtx ? "lock:task" : "lock:tq");
}

static const char *
cv_name(void *addr)
{
	if (addr == (void *) &T.task_cv) {
		return ("wait:task");
	}
	return (TQ != NULL && addr == (void *) &TQ->tq_wait_cv ? "wait:drain" : "wait:sched");
}

static void
hk_list_append(nni_list *l, void *item)
{
	nni_task *task = item;
	if (task->task_node.ln_next != NULL || task->task_node.ln_prev != NULL) {
		// nni_list_append would call nni_panic("appending node already on a list or not inited")
		int t    = tl_tid;
		panicked = 1;
		for (;;) {
			park(t, NULL); // the process would be gone; nothing moves any more
		}
	}
	nni_list_append(l, item);
}

static void
task_cb(void *arg)
{
	int t = tl_tid;
	(void) arg;
	if (t < 0) {
		die("callback on the harness main thread");
	}
	park(t, "cb");
	if (t < nw) {
		bw++;
	} else {
		bx++;
	}
	park(t, "cbret");
	ce++;
	after_cb[t] = 1;
}

static void *
client_main(void *arg)
{
	int t  = (int) (intptr_t) arg;
	int i  = t - nw;
	int nr = 0;
	tl_tid = t;
	for (const char *p = prog[i]; *p; p++) {
		fresh_op[t] = *p;
		switch (*p) {
		case 'p':
			ut_task_prep(&T);
			break;
		case 'd':
			ut_task_dispatch(&T);
			break;
		case 'x':
			ut_task_exec(&T);
			break;
		case 'w':
			ut_task_wait(&T);
			res[i][nr++] = 'w';
			break;
		case 'b':
			res[i][nr++] = ut_task_busy(&T) ? 't' : 'f';
			break;
		}
		res[i][nr] = 0;
	}
	finished[t]  = 1;
	next_call[t] = "end";
	sem_post(&ack[t]);
	return (NULL);
}

static int
can_move(int t)
{
	if (panicked || finished[t]) {
		return (0);
	}
	if (waiting[t] != NULL) {
		return (woken[t] && waiting[t]->mtx->owner == -1);
	}
	if (want[t] != NULL) {
		return (want[t]->owner == -1);
	}
	return (1);
}

static void
observe(void)
{
	int q = 0, live = 0, fin = 1;
	if (TQ != NULL) {
		nni_task *k;
		NNI_LIST_FOREACH (&TQ->tq_tasks, k) {
			q++;
			if (q > 9) {
				break;
			}
		}
	}
	for (int t = 0; t < nthr; t++) {
		if (can_move(t)) {
			live = 1;
		}
		if (t >= nw && !finished[t]) {
			fin = 0;
		}
	}
	printf("busy=%u sd=%u sx=%u pr=%u bw=%u bx=%u ce=%u dn=%u panic=%d live=%d fin=%d res=", T.task_busy, sd, sx, pr, bw,
	    bx, ce, dn, panicked, live, fin);
	if (nc == 0) {
		printf("none");
	}
	for (int i = 0; i < nc; i++) {
		printf("%s%s", i ? "," : "", res[i][0] ? res[i] : "-");
	}
	printf(" prep=%d q=%d", T.task_prep ? 1 : 0, q);
	if (lockbad) {
		printf(" lockbad=1");
	}
	printf(" next=");
	for (int t = 0; t < nw; t++) {
		printf("%s%s", t ? "," : "", next_call[t]);
	}
	printf("|");
	for (int t = nw; t < nthr; t++) {
		printf("%s%s", t > nw ? "," : "", next_call[t]);
	}
	printf("\n");
}

static void
teardown(void)
{
	if (!active) {
		return;
	}
	kill_all = 1;
	for (int t = 0; t < nthr; t++) {
		if (started_thr[t]) {
			if (!finished[t]) {
				sem_post(&go[t]); // pthread_exit from its park point (it holds no real resource)
			}
			pthread_join(thr[t], NULL);
			sem_destroy(&go[t]);
			sem_destroy(&ack[t]);
			started_thr[t] = 0;
		}
	}
	kill_all = 0;
	// unlink the task if it is still queued, then destroy the queue (threads are gone already)
	if (T.task_node.ln_next != NULL) {
		nni_list_remove(&TQ->tq_tasks, &T);
	}
	ut_taskq_fini(TQ);
	TQ     = NULL;
	active = 0;
}

static void
do_init(void)
{
	char *w, *save = NULL;
	teardown();
	has_cb = atoi(vw[1]);
	nw     = atoi(vw[2]);
	if (nw < 0 || nw > NWMAX) {
		nw = NWMAX;
	}
	nc = 0;
	if (strcmp(vw[3], "none") != 0) {
		for (w = strtok_r(vw[3], ",", &save); w != NULL && nc < NCMAX; w = strtok_r(NULL, ",", &save)) {
			prog[nc][0] = 0;
			if (strcmp(w, "-") != 0) {
				strncpy(prog[nc], w, MAXPROG);
				prog[nc][MAXPROG] = 0;
			}
			nc++;
		}
	}
	nthr = nw + nc;
	nmtx = ncv = nwthr = 0;
	sd = sx = pr = bw = bx = ce = dn = 0;
	panicked = lockbad = 0;
	pick_arg           = -1;
	for (int t = 0; t < NTMAX; t++) {
		finished[t]  = 0;
		next_call[t] = "?";
		waiting[t]   = NULL;
		woken[t]     = 0;
		want[t]      = NULL;
		fresh_op[t]  = 0;
		after_cb[t]  = 0;
	}
	for (int i = 0; i < NCMAX; i++) {
		res[i][0] = 0;
	}
	if (ut_taskq_init(&TQ, nw) != 0) {
		die("nni_taskq_init failed");
	}
	ut_task_init(&T, TQ, has_cb ? task_cb : NULL, NULL);
	for (int t = nw; t < nthr; t++) {
		sem_init(&go[t], 0, 0);
		sem_init(&ack[t], 0, 0);
		pthread_create(&thr[t], NULL, client_main, (void *) (intptr_t) t);
		started_thr[t] = 1;
		sem_wait(&ack[t]); // parked at its first hook (or finished)
	}
	active = 1;
	observe();
}

static void
do_step(void)
{
	int         t = -1;
	const char *w = vw[1];
	if (!active) {
		printf("bad-op\n");
		return;
	}
	if (w[0] == 'w' && isdigit((unsigned char) w[1])) {
		t = atoi(w + 1);
		if (t >= nw) {
			t = -1;
		}
	} else if (w[0] == 'c' && isdigit((unsigned char) w[1])) {
		t = atoi(w + 1);
		t = t < nc ? t + nw : -1;
	} else {
		printf("bad-op\n");
		return;
	}
	if (t >= 0 && can_move(t)) {
		pick_arg = vn > 2 ? atoi(vw[2]) : -1;
		if (pick_arg >= nw) {
			pick_arg = -1;
		}
		sem_post(&go[t]);
		sem_wait(&ack[t]);
		pick_arg = -1;
	}
	observe();
}

int
main(void)
{
	setvbuf(stdout, NULL, _IOFBF, 1 << 16);
	while (next_line()) {
		if (vn == 0) {
			continue;
		}
		if (strcmp(vw[0], "reset") == 0) {
			teardown();
			printf("reset\n");
		} else if (strcmp(vw[0], "init") == 0 && vn >= 4) {
			do_init();
		} else if (strcmp(vw[0], "step") == 0 && vn >= 2) {
			do_step();
		} else {
			printf("bad-op\n");
		}
	}
	teardown();
	fflush(stdout);
	return (0);
}
