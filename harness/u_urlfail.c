// C20 support (UNIT): nng_url_parse / nng_url_sprintf / nng_url_clone under "fail the k-th allocation".
// line: urlfail <k> <hex>   ->  p=<rv> [c=<rv>] live=<blocks> badfree=<n> $
#include <nng/nng.h>

#include "common.h"
#include "valloc.h"

extern int nni_alloc_set(void *(*)(size_t), void *(*)(size_t, size_t), void (*)(void *, size_t));

int
main(void)
{
	setvbuf(stdout, NULL, _IOLBF, 0);
	nni_alloc_set(valloc_malloc, valloc_calloc, valloc_free);
	while (next_line()) {
		if (vn == 0) {
			continue;
		}
		if (strcmp(vw[0], "reset") == 0) {
			printf("reset\n");
			continue;
		}
		if (vn == 3 && strcmp(vw[0], "urlfail") == 0) {
			size_t        n;
			uint8_t      *d = parse_hex(vw[2], &n);
			char         *s = malloc(n + 1);
			unsigned long live, bytes, bad, tot;
			nng_url      *u = NULL, *c = NULL;
			memcpy(s, d, n);
			s[n] = 0;
			free(d);
			valloc_reset_counters();
			valloc_fail_at(atol(vw[1]));
			int rv = nng_url_parse(&u, s);
			printf("p=%d", rv);
			if (rv == 0) {
				char buf[8192];
				(void) nng_url_sprintf(buf, sizeof(buf), u);
				int rc = nng_url_clone(&c, u);
				printf(" c=%d", rc);
				if (rc == 0) {
					// the clone must be usable and independent
					nng_url_free(u);
					u = NULL;
					(void) nng_url_sprintf(buf, sizeof(buf), c);
					nng_url_free(c);
				}
				if (u != NULL) {
					nng_url_free(u);
				}
			}
			valloc_fail_at(0);
			valloc_stats(&live, &bytes, &bad, &tot);
			printf(" live=%lu badfree=%lu allocs=%lu $\n", live, bad, tot);
			free(s);
			continue;
		}
		printf("bad-op $\n");
	}
	return (0);
}
