// REAL executor: raw SP peer (see rawpeer.h).  Plain POSIX sockets, no nng calls, except for
// the NNG_VERIF clamp hook pointer which lives in libnng.a (posix_tcpconn.c).
#include "rawpeer.h"

#include <arpa/inet.h>
#include <errno.h>
#include <fcntl.h>
#include <netinet/in.h>
#include <netinet/tcp.h>
#include <poll.h>
#include <pthread.h>
#include <sched.h>
#include <stdio.h>
#include <sys/socket.h>
#include <sys/un.h>
#include <time.h>
#include <unistd.h>

#ifndef MSG_NOSIGNAL
#define MSG_NOSIGNAL 0
#endif

static int64_t
now_ms(void)
{
	struct timespec ts;
	clock_gettime(CLOCK_MONOTONIC, &ts);
	return ((int64_t) ts.tv_sec * 1000 + ts.tv_nsec / 1000000);
}

int
rp_kind(const char *name)
{
	if (strcmp(name, "tcp") == 0)
		return (RP_TCP);
	if (strcmp(name, "ipc") == 0)
		return (RP_IPC);
	if (strcmp(name, "sfd") == 0)
		return (RP_SFD);
	return (-1);
}

const char *
rp_kind_name(int kind)
{
	return (kind == RP_TCP ? "tcp" : kind == RP_IPC ? "ipc" : "sfd");
}

size_t
rp_headlen(int kind)
{
	return (kind == RP_IPC ? 9 : 8);
}

static void
set_nonblock(int fd)
{
	int fl = fcntl(fd, F_GETFL, 0);
	(void) fcntl(fd, F_SETFL, fl | O_NONBLOCK);
}

static void
set_nodelay(int fd)
{
	int one = 1;
	(void) setsockopt(fd, IPPROTO_TCP, TCP_NODELAY, &one, sizeof(one));
}

int
rp_listen(rp_listener *l, int kind, const char *tmpdir, unsigned tag)
{
	memset(l, 0, sizeof(*l));
	l->fd   = -1;
	l->kind = kind;
	if (kind == RP_TCP) {
		struct sockaddr_in sa;
		socklen_t          sl  = sizeof(sa);
		int                one = 1;
		int                fd  = socket(AF_INET, SOCK_STREAM, 0);
		if (fd < 0)
			return (-1);
		(void) setsockopt(fd, SOL_SOCKET, SO_REUSEADDR, &one, sizeof(one));
		memset(&sa, 0, sizeof(sa));
		sa.sin_family      = AF_INET;
		sa.sin_addr.s_addr = htonl(INADDR_LOOPBACK);
		sa.sin_port        = 0; // ephemeral
		if (bind(fd, (struct sockaddr *) &sa, sizeof(sa)) != 0 || listen(fd, 16) != 0 ||
		    getsockname(fd, (struct sockaddr *) &sa, &sl) != 0) {
			close(fd);
			return (-1);
		}
		snprintf(l->url, sizeof(l->url), "tcp://127.0.0.1:%u", (unsigned) ntohs(sa.sin_port));
		l->fd = fd;
		return (0);
	}
	if (kind == RP_IPC) {
		struct sockaddr_un sa;
		int                fd = socket(AF_UNIX, SOCK_STREAM, 0);
		if (fd < 0)
			return (-1);
		snprintf(l->path, sizeof(l->path), "%s/rp-%d-%u.sock", tmpdir, (int) getpid(), tag);
		unlink(l->path);
		memset(&sa, 0, sizeof(sa));
		sa.sun_family = AF_UNIX;
		snprintf(sa.sun_path, sizeof(sa.sun_path), "%s", l->path);
		if (bind(fd, (struct sockaddr *) &sa, sizeof(sa)) != 0 || listen(fd, 16) != 0) {
			close(fd);
			return (-1);
		}
		snprintf(l->url, sizeof(l->url), "ipc://%s", l->path);
		l->fd = fd;
		return (0);
	}
	errno = EINVAL;
	return (-1);
}

int
rp_accept(rp_listener *l, int timeout_ms)
{
	struct pollfd pfd = { .fd = l->fd, .events = POLLIN };
	int           fd;
	if (poll(&pfd, 1, timeout_ms) <= 0) {
		errno = ETIMEDOUT;
		return (-1);
	}
	if ((fd = accept(l->fd, NULL, NULL)) < 0) {
		return (-1);
	}
	if (l->kind == RP_TCP) {
		set_nodelay(fd);
	}
	return (fd);
}

void
rp_listener_close(rp_listener *l)
{
	if (l->fd >= 0) {
		close(l->fd);
		l->fd = -1;
	}
	if (l->path[0]) {
		unlink(l->path);
		l->path[0] = 0;
	}
}

int
rp_connect(const char *url, int timeout_ms)
{
	int64_t deadline = now_ms() + timeout_ms;
	if (strncmp(url, "tcp://", 6) == 0) {
		struct sockaddr_in sa;
		char               host[64];
		const char        *c = strrchr(url, ':');
		size_t             hl;
		if (c == NULL || c < url + 6) {
			errno = EINVAL;
			return (-1);
		}
		hl = (size_t) (c - (url + 6));
		if (hl >= sizeof(host)) {
			errno = EINVAL;
			return (-1);
		}
		memcpy(host, url + 6, hl);
		host[hl] = 0;
		memset(&sa, 0, sizeof(sa));
		sa.sin_family = AF_INET;
		sa.sin_port   = htons((uint16_t) atoi(c + 1));
		if (inet_pton(AF_INET, host, &sa.sin_addr) != 1) {
			errno = EINVAL;
			return (-1);
		}
		for (;;) {
			int fd = socket(AF_INET, SOCK_STREAM, 0);
			if (fd < 0)
				return (-1);
			if (connect(fd, (struct sockaddr *) &sa, sizeof(sa)) == 0) {
				set_nodelay(fd);
				return (fd);
			}
			close(fd);
			if (errno != ECONNREFUSED || now_ms() > deadline)
				return (-1);
			sched_yield();
		}
	}
	if (strncmp(url, "ipc://", 6) == 0) {
		struct sockaddr_un sa;
		memset(&sa, 0, sizeof(sa));
		sa.sun_family = AF_UNIX;
		snprintf(sa.sun_path, sizeof(sa.sun_path), "%s", url + 6);
		for (;;) {
			int fd = socket(AF_UNIX, SOCK_STREAM, 0);
			if (fd < 0)
				return (-1);
			if (connect(fd, (struct sockaddr *) &sa, sizeof(sa)) == 0) {
				return (fd);
			}
			close(fd);
			if ((errno != ECONNREFUSED && errno != ENOENT) || now_ms() > deadline)
				return (-1);
			sched_yield();
		}
	}
	errno = EINVAL;
	return (-1);
}

int
rp_socketpair(int fds[2])
{
	return (socketpair(AF_UNIX, SOCK_STREAM, 0, fds));
}

void
rp_close(int fd)
{
	if (fd >= 0) {
		close(fd);
	}
}

int
rp_write_all(int fd, const uint8_t *buf, size_t len, int timeout_ms)
{
	int64_t deadline = now_ms() + timeout_ms;
	size_t  off      = 0;
	while (off < len) {
		ssize_t n = send(fd, buf + off, len - off, MSG_NOSIGNAL | MSG_DONTWAIT);
		if (n > 0) {
			off += (size_t) n;
			continue;
		}
		if (n < 0 && (errno == EAGAIN || errno == EWOULDBLOCK || errno == EINTR)) {
			struct pollfd pfd  = { .fd = fd, .events = POLLOUT };
			int64_t       left = deadline - now_ms();
			if (left <= 0) {
				errno = ETIMEDOUT;
				return (-1);
			}
			(void) poll(&pfd, 1, (int) left);
			continue;
		}
		return (-1);
	}
	return (0);
}

int
rp_read_exact(int fd, uint8_t *buf, size_t len, size_t step, int timeout_ms)
{
	int64_t deadline = now_ms() + timeout_ms;
	size_t  off      = 0;
	while (off < len) {
		size_t want = len - off;
		if (step != 0 && want > step) {
			want = step;
		}
		ssize_t n = recv(fd, buf + off, want, MSG_DONTWAIT);
		if (n > 0) {
			off += (size_t) n;
			continue;
		}
		if (n == 0) {
			return (-2);
		}
		if (errno == EAGAIN || errno == EWOULDBLOCK || errno == EINTR) {
			struct pollfd pfd  = { .fd = fd, .events = POLLIN };
			int64_t       left = deadline - now_ms();
			if (left <= 0) {
				return (-3);
			}
			(void) poll(&pfd, 1, (int) left);
			continue;
		}
		return (-1);
	}
	return (0);
}

bool
rp_wait_closed(int fd, int timeout_ms)
{
	int64_t deadline = now_ms() + timeout_ms;
	for (;;) {
		uint8_t       tmp[256];
		struct pollfd pfd  = { .fd = fd, .events = POLLIN };
		int64_t       left = deadline - now_ms();
		if (left <= 0) {
			return (false);
		}
		if (poll(&pfd, 1, (int) left) <= 0) {
			continue;
		}
		ssize_t n = recv(fd, tmp, sizeof(tmp), MSG_DONTWAIT);
		if (n == 0 || (n < 0 && errno != EAGAIN && errno != EWOULDBLOCK && errno != EINTR)) {
			return (true);
		}
	}
}

void
rp_handshake_bytes(uint16_t proto, uint8_t out[8])
{
	out[0] = 0;
	out[1] = 'S';
	out[2] = 'P';
	out[3] = 0;
	out[4] = (uint8_t) (proto >> 8);
	out[5] = (uint8_t) (proto & 0xff);
	out[6] = 0;
	out[7] = 0;
}

int
rp_handshake(int fd, uint16_t proto, unsigned cut, uint16_t *peer, uint8_t theirs[8], int timeout_ms)
{
	uint8_t ours[8];
	rp_handshake_bytes(proto, ours);
	if (cut > 0 && cut < 8) {
		if (rp_write_all(fd, ours, cut, timeout_ms) != 0 ||
		    rp_write_all(fd, ours + cut, 8 - cut, timeout_ms) != 0) {
			return (-1);
		}
	} else if (rp_write_all(fd, ours, 8, timeout_ms) != 0) {
		return (-1);
	}
	if (rp_read_exact(fd, theirs, 8, cut ? 3 : 0, timeout_ms) != 0) {
		return (-1);
	}
	if (theirs[0] != 0 || theirs[1] != 'S' || theirs[2] != 'P' || theirs[3] != 0 || theirs[6] != 0 ||
	    theirs[7] != 0) {
		errno = EPROTO;
		return (-1);
	}
	*peer = (uint16_t) ((theirs[4] << 8) | theirs[5]);
	return (0);
}

uint8_t *
rp_frame(int kind, const uint8_t *hdr, size_t hlen, const uint8_t *body, size_t blen, size_t *flen)
{
	size_t   hl  = rp_headlen(kind);
	uint64_t len = (uint64_t) hlen + blen;
	uint8_t *f   = malloc(hl + hlen + blen);
	size_t   o   = 0;
	if (kind == RP_IPC) {
		f[o++] = 1;
	}
	for (int i = 7; i >= 0; i--) {
		f[o++] = (uint8_t) (len >> (8 * i));
	}
	if (hlen) {
		memcpy(f + o, hdr, hlen);
	}
	if (blen) {
		memcpy(f + o + hlen, body, blen);
	}
	*flen = hl + hlen + blen;
	return (f);
}

int
rp_read_frame(int fd, int kind, size_t step, size_t maxlen, uint8_t **payload, size_t *plen, uint8_t rawhead[9],
    int timeout_ms)
{
	size_t   hl = rp_headlen(kind);
	uint64_t len = 0;
	int      rv;
	uint8_t *p;
	if ((rv = rp_read_exact(fd, rawhead, hl, step, timeout_ms)) != 0) {
		return (rv);
	}
	if (kind == RP_IPC && rawhead[0] != 1) {
		return (-4);
	}
	for (size_t i = hl - 8; i < hl; i++) {
		len = (len << 8) | rawhead[i];
	}
	if (len > maxlen) {
		return (-5);
	}
	p = malloc(len ? (size_t) len : 1);
	if ((rv = rp_read_exact(fd, p, (size_t) len, step, timeout_ms)) != 0) {
		free(p);
		return (rv);
	}
	*payload = p;
	*plen    = (size_t) len;
	return (0);
}

// ---- clamp ---------------------------------------------------------------------------
// weak: when the tree under test does not carry the hook the harness still links; the clamp
// is then unavailable (rp_clamp_available() == false) and nothing is cut inside nng
extern size_t (*nni_verif_io_clamp)(size_t total, int is_write) __attribute__((weak));

bool
rp_clamp_available(void)
{
	return (&nni_verif_io_clamp != NULL);
}

static pthread_mutex_t clamp_mtx = PTHREAD_MUTEX_INITIALIZER;
static uint64_t        clamp_state;
static size_t          clamp_palette[32];
static size_t          clamp_n;
static unsigned        clamp_pass;
static rp_clamp_stats  clamp_stats;
static volatile size_t   last_rd_total;
static volatile uint64_t rd_calls;

static uint64_t
splitmix(uint64_t *s)
{
	uint64_t z = (*s += 0x9E3779B97F4A7C15ull);
	z          = (z ^ (z >> 30)) * 0xBF58476D1CE4E5B9ull;
	z          = (z ^ (z >> 27)) * 0x94D049BB133111EBull;
	return (z ^ (z >> 31));
}

static size_t
clamp_fn(size_t total, int is_write)
{
	size_t lim = total;
	pthread_mutex_lock(&clamp_mtx);
	if (is_write) {
		clamp_stats.wr_calls++;
	} else {
		clamp_stats.rd_calls++;
		last_rd_total = total;
		__atomic_add_fetch(&rd_calls, 1, __ATOMIC_SEQ_CST);
	}
	if (clamp_n > 0 && total > 1) {
		uint64_t r = splitmix(&clamp_state);
		if ((r % 1000) >= clamp_pass) {
			lim = clamp_palette[(r >> 20) % clamp_n];
			if (lim == 0) {
				lim = 1;
			}
		}
		if (lim < total) {
			if (is_write) {
				clamp_stats.wr_fired++;
			} else {
				clamp_stats.rd_fired++;
			}
		} else {
			lim = total;
		}
	}
	pthread_mutex_unlock(&clamp_mtx);
	return (lim);
}

void
rp_clamp_install(uint64_t seed, const size_t *palette, size_t n, unsigned pass_permille)
{
	pthread_mutex_lock(&clamp_mtx);
	clamp_state = seed;
	clamp_n     = n > 32 ? 32 : n;
	for (size_t i = 0; i < clamp_n; i++) {
		clamp_palette[i] = palette[i];
	}
	clamp_pass = pass_permille;
	pthread_mutex_unlock(&clamp_mtx);
	if (rp_clamp_available()) {
		__atomic_store_n(&nni_verif_io_clamp, clamp_fn, __ATOMIC_SEQ_CST);
	}
}

void
rp_clamp_observe_only(void)
{
	rp_clamp_install(0, NULL, 0, 1000);
}

void
rp_clamp_remove(void)
{
	if (rp_clamp_available()) {
		__atomic_store_n(&nni_verif_io_clamp, NULL, __ATOMIC_SEQ_CST);
	}
}

void
rp_clamp_get(rp_clamp_stats *st, bool reset)
{
	pthread_mutex_lock(&clamp_mtx);
	*st = clamp_stats;
	if (reset) {
		memset(&clamp_stats, 0, sizeof(clamp_stats));
	}
	pthread_mutex_unlock(&clamp_mtx);
}

size_t
rp_clamp_last_read_total(void)
{
	return (last_rd_total);
}

uint64_t
rp_clamp_read_calls(void)
{
	return (__atomic_load_n(&rd_calls, __ATOMIC_SEQ_CST));
}

bool
rp_wait_read_request(size_t total, uint64_t since_calls, int timeout_ms)
{
	int64_t deadline = now_ms() + timeout_ms;
	for (;;) {
		bool hit;
		pthread_mutex_lock(&clamp_mtx);
		hit = (rd_calls > since_calls) && (last_rd_total == total);
		pthread_mutex_unlock(&clamp_mtx);
		if (hit) {
			return (true);
		}
		if (!rp_clamp_available() || now_ms() > deadline) {
			return (false);
		}
		sched_yield();
	}
}
