// REAL executor for C11 (C11T): SP/UDP peers whose addresses collide in nng_sockaddr_hash (IPv6).
//
// Must run inside a private network namespace in which `lo` is up and carries, besides ::1, the
// address ::1:0:0:1 (vlib/props/c11.py: `unshare -n sh -c "ip link set lo up; ip -6 addr add ::1:0:0:1/128 dev lo nodad; exec ..."`).
//
// nng_sockaddr_hash(IPv6) = 2^63 | (addr[0..8) ^ addr[8..16) ^ sa_port), hence
//   B = [::1]:40000 and A = [::1:0:0:1]:40001 have the SAME hash (the raw ports 0x409c / 0x419c differ in
//   0x0100, which bytes 8..9 of A's address put back), C = [::1]:40002 has another one.
// udp.c keeps its pipes in an id map probed from that hash (udp_find_pipe / udp_add_pipe / udp_remove_pipe).
//
// Input lines -> one output line each (an unmet expectation puts FAIL:<what> on the line):
//   open udp6 pull <hold 0|1> def   listener udp://[::1]:0 on a PULL socket, always-armed receiver unless hold
//                                   -> "open ok port=<p> A=<0|1> hashA=<hex> hashB=<hex> hashC=<hex>"  |  "open SKIP:<why>" (no IPv6 loopback)
//   need A                          -> "need ok" | "need SKIP:<why>"  (the colliding address is not configured: not in the namespace)
//   send <A|B|C> <datagram-hex> <want-replies> [<expected: c | d<reason> | - , comma separated>]
//                                   that peer sends; waits (bounded) for that many answers   -> "send <x> rx=<c|d<reason>,..|->"
//   settle <adds> <rems> [x]        waits (bounded) until that many pipes were added / removed in total; x: and not more
//                                   -> "settle add=<n> rem=<n>"
//   wait <ms>                       -> "wait ok"
//   arm                             posts the application's receive (after hold)
//   recvd [<body-hex>...]           -> "recvd n=<k> <body-hex>..."   (everything delivered so far; compared if bodies are given; "none": nothing)
//   close                           -> "close ok add=<n> rem=<n>"
#include <nng/nng.h>

#include <arpa/inet.h>
#include <errno.h>
#include <netinet/in.h>
#include <poll.h>
#include <pthread.h>
#include <signal.h>
#include <stdio.h>
#include <stdlib.h>
#include <string.h>
#include <sys/socket.h>
#include <time.h>
#include <unistd.h>

extern uint64_t nng_sockaddr_hash(const nng_sockaddr *);

static nng_socket      sock;
static nng_listener    lst;
static nng_aio        *raio;
static pthread_mutex_t mtx = PTHREAD_MUTEX_INITIALIZER;
static int             nadd, nrem, ndel;
static char            dels[64][160];
static int             fds[3];
static struct sockaddr_in6 peer_sa[3], nng_sa;
static int             TMO = 5000;
static int             skip;

static int64_t
now_ms(void)
{
	struct timespec ts;
	clock_gettime(CLOCK_MONOTONIC, &ts);
	return ((int64_t) ts.tv_sec * 1000 + ts.tv_nsec / 1000000);
}

static void
pipe_cb(nng_pipe p, nng_pipe_ev ev, void *arg)
{
	(void) p;
	(void) arg;
	pthread_mutex_lock(&mtx);
	if (ev == NNG_PIPE_EV_ADD_POST) {
		nadd++;
	} else if (ev == NNG_PIPE_EV_REM_POST) {
		nrem++;
	}
	pthread_mutex_unlock(&mtx);
}

static void
recv_cb(void *arg)
{
	(void) arg;
	if (nng_aio_result(raio) != 0) {
		return;
	}
	nng_msg *m = nng_aio_get_msg(raio);
	pthread_mutex_lock(&mtx);
	if (ndel < 64) {
		size_t   n = nng_msg_len(m) > 64 ? 64 : nng_msg_len(m);
		uint8_t *b = nng_msg_body(m);
		char    *o = dels[ndel++];
		o[0]       = 0;
		for (size_t i = 0; i < n; i++) {
			sprintf(o + 2 * i, "%02x", b[i]);
		}
		if (n == 0) {
			strcpy(o, "-");
		}
	}
	pthread_mutex_unlock(&mtx);
	nng_msg_free(m);
	nng_socket_recv(sock, raio);
}

static void
watchdog(int sig)
{
	(void) sig;
	static const char m[] = "WATCHDOG\n";
	(void) !write(1, m, sizeof(m) - 1);
	_exit(86);
}

static int
mksock(const char *addr, int port, struct sockaddr_in6 *sa)
{
	int fd = socket(AF_INET6, SOCK_DGRAM, 0);
	memset(sa, 0, sizeof(*sa));
	sa->sin6_family = AF_INET6;
	sa->sin6_port   = htons((uint16_t) port);
	if (fd < 0 || inet_pton(AF_INET6, addr, &sa->sin6_addr) != 1 || bind(fd, (struct sockaddr *) sa, sizeof(*sa)) != 0) {
		return (-1);
	}
	return (fd);
}

static uint64_t
hash_of(const struct sockaddr_in6 *s)
{
	nng_sockaddr sa;
	memset(&sa, 0, sizeof(sa));
	sa.s_in6.sa_family = NNG_AF_INET6;
	sa.s_in6.sa_port   = s->sin6_port;
	memcpy(sa.s_in6.sa_addr, &s->sin6_addr, 16);
	return (nng_sockaddr_hash(&sa));
}

static int
hexval(int c)
{
	return (c >= '0' && c <= '9') ? c - '0' : (c >= 'a' && c <= 'f') ? c - 'a' + 10 : (c >= 'A' && c <= 'F') ? c - 'A' + 10 : -1;
}

int
main(void)
{
	char line[4096];
	signal(SIGALRM, watchdog);
	setvbuf(stdout, NULL, _IOLBF, 0);
	if (getenv("C11_TMO")) {
		TMO = atoi(getenv("C11_TMO"));
	}
	while (fgets(line, sizeof(line), stdin) != NULL) {
		char *w[40];
		int   nw = 0;
		alarm(60);
		for (char *t = strtok(line, " \r\n"); t != NULL && nw < 40; t = strtok(NULL, " \r\n")) {
			w[nw++] = t;
		}
		if (nw == 0) {
			continue;
		}
		if (strcmp(w[0], "open") == 0) {
			int rv, port = 0;
			if ((rv = nng_init(NULL)) != 0 || (rv = nng_pull0_open(&sock)) != 0) {
				printf("open FAIL:%s\n", nng_strerror(rv));
				continue;
			}
			nng_pipe_notify(sock, NNG_PIPE_EV_ADD_POST, pipe_cb, NULL);
			nng_pipe_notify(sock, NNG_PIPE_EV_REM_POST, pipe_cb, NULL);
			fds[1] = mksock("::1", 40000, &peer_sa[1]); // B
			fds[2] = mksock("::1", 40002, &peer_sa[2]); // C
			if (fds[1] < 0 || fds[2] < 0) {
				printf("open SKIP:no-ipv6-loopback-or-ports-taken-%d\n", errno);
				skip = 1;
				continue;
			}
			if ((rv = nng_listen(sock, "udp://[::1]:0", &lst, 0)) != 0 ||
			    (rv = nng_listener_get_int(lst, NNG_OPT_BOUND_PORT, &port)) != 0) {
				printf("open FAIL:listen-%s\n", nng_strerror(rv));
				continue;
			}
			memset(&nng_sa, 0, sizeof(nng_sa));
			nng_sa.sin6_family = AF_INET6;
			nng_sa.sin6_port   = htons((uint16_t) port);
			inet_pton(AF_INET6, "::1", &nng_sa.sin6_addr);
			fds[0] = mksock("::1:0:0:1", 40001, &peer_sa[0]); // A
			nng_aio_alloc(&raio, recv_cb, NULL);
			if (nw < 4 || atoi(w[3]) == 0) {
				nng_socket_recv(sock, raio);
			}
			printf("open ok port=%d A=%d hashA=%llx hashB=%llx hashC=%llx\n", port, fds[0] >= 0,
			    (unsigned long long) hash_of(&peer_sa[0]), (unsigned long long) hash_of(&peer_sa[1]),
			    (unsigned long long) hash_of(&peer_sa[2]));
		} else if (skip && strcmp(w[0], "close") != 0) {
			printf("%s SKIP\n", w[0]);
		} else if (strcmp(w[0], "need") == 0) {
			if (fds[0] < 0) {
				printf("need SKIP:address-::1:0:0:1-not-configured\n");
				skip = 1;
			} else if (hash_of(&peer_sa[0]) != hash_of(&peer_sa[1])) {
				printf("need FAIL:hashes-do-not-collide\n");
			} else {
				printf("need ok\n");
			}
		} else if (strcmp(w[0], "send") == 0 && nw >= 4) {
			int     k = w[1][0] - 'A', want = atoi(w[3]), got = 0;
			uint8_t b[2048];
			size_t  n = 0;
			char    ops[256] = "";
			if (k < 0 || k > 2 || fds[k] < 0) {
				printf("send FAIL:usage\n");
				continue;
			}
			for (char *p = w[2]; p[0] && p[1] && n < sizeof(b); p += 2) {
				b[n++] = (uint8_t) (hexval(p[0]) * 16 + hexval(p[1]));
			}
			(void) sendto(fds[k], b, n, 0, (struct sockaddr *) &nng_sa, sizeof(nng_sa));
			int64_t end = now_ms() + TMO;
			for (;;) {
				struct pollfd pfd = { .fd = fds[k], .events = POLLIN };
				int64_t       left = end - now_ms();
				uint8_t       r[2048];
				ssize_t       m;
				if (poll(&pfd, 1, got < want ? (left > 0 ? (int) left : 0) : 50) <= 0) {
					break;
				}
				m = recv(fds[k], r, sizeof(r), 0);
				size_t l = strlen(ops);
				if (m >= 8 && r[1] == 3) {
					snprintf(ops + l, sizeof(ops) - l, "%sd%d", l ? "," : "", r[4] | (r[5] << 8));
				} else if (m >= 8 && r[1] == 2) {
					snprintf(ops + l, sizeof(ops) - l, "%sc", l ? "," : "");
				} else {
					snprintf(ops + l, sizeof(ops) - l, "%s?", l ? "," : "");
				}
				got++;
			}
			if (nw >= 5 && strcmp(w[4], ops[0] ? ops : "-") != 0) {
				printf("send %s rx=%s FAIL:expected-%s\n", w[1], ops[0] ? ops : "-", w[4]);
			} else {
				printf("send %s rx=%s\n", w[1], ops[0] ? ops : "-");
			}
		} else if (strcmp(w[0], "settle") == 0 && nw >= 3) {
			int     a = atoi(w[1]), r = atoi(w[2]);
			int64_t end = now_ms() + TMO;
			for (;;) {
				pthread_mutex_lock(&mtx);
				int ok = nadd >= a && nrem >= r;
				pthread_mutex_unlock(&mtx);
				if (ok || now_ms() > end) {
					break;
				}
				usleep(2000);
			}
			pthread_mutex_lock(&mtx);
			if (nadd < a || nrem < r || (nw >= 4 && (nadd != a || nrem != r))) {
				printf("settle add=%d rem=%d FAIL:expected-add=%d-rem=%d\n", nadd, nrem, a, r);
			} else {
				printf("settle add=%d rem=%d\n", nadd, nrem);
			}
			pthread_mutex_unlock(&mtx);
		} else if (strcmp(w[0], "wait") == 0 && nw >= 2) {
			alarm(60 + atoi(w[1]) / 1000);
			usleep((useconds_t) atoi(w[1]) * 1000);
			printf("wait ok\n");
		} else if (strcmp(w[0], "arm") == 0) {
			nng_socket_recv(sock, raio);
			printf("arm ok\n");
		} else if (strcmp(w[0], "recvd") == 0) {
			usleep(100000);
			pthread_mutex_lock(&mtx);
			printf("recvd n=%d", ndel);
			for (int i = 0; i < ndel; i++) {
				printf(" %s", dels[i]);
			}
			if (nw >= 2) {
				int want = strcmp(w[1], "none") == 0 ? 0 : nw - 1, same = want == ndel;
				for (int i = 0; same && i < want; i++) {
					same = strcmp(w[1 + i], dels[i]) == 0;
				}
				if (!same) {
					printf(" FAIL:expected");
					for (int i = 1; i < nw; i++) {
						printf("-%s", w[i]);
					}
				}
			}
			printf("\n");
			pthread_mutex_unlock(&mtx);
		} else if (strcmp(w[0], "close") == 0) {
			for (int i = 0; i < 3; i++) {
				if (fds[i] >= 0) {
					close(fds[i]);
				}
			}
			nng_socket_close(sock);
			if (raio != NULL) {
				nng_aio_stop(raio);
				nng_aio_free(raio);
			}
			pthread_mutex_lock(&mtx);
			printf("close %s add=%d rem=%d\n", skip ? "SKIP" : "ok", nadd, nrem);
			pthread_mutex_unlock(&mtx);
			nng_fini();
		} else {
			printf("%s FAIL:unknown\n", w[0]);
		}
	}
	printf("bye\n");
	return (0);
}
