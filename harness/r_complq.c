// REAL probe for completion batches (Props/C02Completions.lean): several aios are completed in ONE batch
// (nni_aio_completions_run: SUB contexts that all match one published message) and every callback reuses the reap
// node of its own aio at once by calling nng_aio_reap on it.  Every callback must run exactly once.
//   r_complq <n contexts> <rounds>
// Output: "complq n=<n> rounds=<r> callbacks=<k> expected=<n*r> dup=<d>"
#include <nng/nng.h>
#include <stdio.h>
#include <stdlib.h>
#include <string.h>

#define MAXC 64
static nng_mtx *mtx;
static int      ncb, ndup;
static int      seen[MAXC];
static nng_aio *aios[MAXC];

static void
cb(void *arg)
{
	int      i = (int) (intptr_t) arg;
	nng_aio *a = aios[i];
	if (nng_aio_result(a) == 0) {
		nng_msg_free(nng_aio_get_msg(a));
	}
	nng_mtx_lock(mtx);
	ncb++;
	if (seen[i]++) {
		ndup++;
	}
	nng_mtx_unlock(mtx);
	nng_aio_reap(a); // reuses a_reap_node right now
}

int
main(int argc, char **argv)
{
	if (argc != 3) {
		return (2);
	}
	int        n = atoi(argv[1]), rounds = atoi(argv[2]);
	nng_socket pub, sub;
	nng_ctx    ctx[MAXC];
	int        total = 0;
	if (n < 1 || n > MAXC || nng_init(NULL) != 0 || nng_mtx_alloc(&mtx) != 0 || nng_pub0_open(&pub) != 0 ||
	    nng_sub0_open(&sub) != 0 || nng_listen(pub, "inproc://complq", NULL, 0) != 0 ||
	    nng_dial(sub, "inproc://complq", NULL, 0) != 0) {
		printf("complq setup-failed\n");
		return (0);
	}
	for (int i = 0; i < n; i++) {
		if (nng_ctx_open(&ctx[i], sub) != 0 || nng_sub0_ctx_subscribe(ctx[i], "", 0) != 0) {
			printf("complq setup-failed\n");
			return (0);
		}
	}
	nng_msleep(100);
	for (int r = 0; r < rounds; r++) {
		int want;
		memset(seen, 0, sizeof(seen));
		for (int i = 0; i < n; i++) {
			if (nng_aio_alloc(&aios[i], cb, (void *) (intptr_t) i) != 0) {
				printf("complq setup-failed\n");
				return (0);
			}
			nng_aio_set_timeout(aios[i], 3000);
			nng_ctx_recv(ctx[i], aios[i]);
		}
		nng_msleep(20);
		nng_msg *m;
		nng_msg_alloc(&m, 0);
		nng_msg_append(m, "x", 1);
		nng_sendmsg(pub, m, 0);
		total += n;
		nng_mtx_lock(mtx);
		want = total;
		nng_mtx_unlock(mtx);
		for (int w = 0; w < 400; w++) { // up to 4 s (the receives time out after 3 s)
			int k;
			nng_mtx_lock(mtx);
			k = ncb;
			nng_mtx_unlock(mtx);
			if (k >= want) {
				break;
			}
			nng_msleep(10);
		}
	}
	nng_msleep(50);
	nng_mtx_lock(mtx);
	printf("complq n=%d rounds=%d callbacks=%d expected=%d dup=%d\n", n, rounds, ncb, total, ndup);
	nng_mtx_unlock(mtx);
	fflush(stdout);
	if (ncb == total) {
		nng_socket_close(sub);
		nng_socket_close(pub);
		nng_fini();
	}
	return (0);
}
