// REAL (real threads, inproc): C10 for devices.  A device owns its sockets while it runs
// (calls on them fail with NNG_EBUSY) and closes them when it terminates; afterwards the handles
// and the handles derived from them are invalid.  One line per device shape:
//   devclose <kind> fwd=<ok|no> busy_front=<rv> busy_back=<rv> result=<rv> front=<rv> back=<rv> get=<rv> lclose=<rv>
// kinds: pipeline (PULL raw -> PUSH raw, one way), pubsub (SUB raw -> PUB raw, one way),
//        pair1 (PAIR1 raw <-> PAIR1 raw), reqrep (REP raw <-> REQ raw), reflector (one BUS raw socket)
#include <nng/nng.h>
#include <stdio.h>
#include <stdlib.h>
#include <string.h>

#define CK(x)                                                        \
	do {                                                         \
		int rv_ = (x);                                       \
		if (rv_ != 0) {                                      \
			printf("setup-failed %s %d\n", #x, rv_);     \
			fflush(stdout);                              \
			exit(2);                                     \
		}                                                    \
	} while (0)

static int seq;

static void
run(const char *kind)
{
	nng_socket   front, back, a, b;
	nng_listener lf, lb;
	nng_aio     *aio;
	char         uf[64], ub[64];
	bool         same = strcmp(kind, "reflector") == 0;
	bool         fwd  = false;
	int          v;

	snprintf(uf, sizeof(uf), "inproc://devclose-f-%d", ++seq);
	snprintf(ub, sizeof(ub), "inproc://devclose-b-%d", seq);
	if (strcmp(kind, "pipeline") == 0) {
		CK(nng_pull0_open_raw(&front));
		CK(nng_push0_open_raw(&back));
		CK(nng_push0_open(&a));
		CK(nng_pull0_open(&b));
	} else if (strcmp(kind, "pubsub") == 0) {
		CK(nng_sub0_open_raw(&front));
		CK(nng_pub0_open_raw(&back));
		CK(nng_pub0_open(&a));
		CK(nng_sub0_open(&b));
		CK(nng_sub0_socket_subscribe(b, "", 0));
	} else if (strcmp(kind, "pair1") == 0) {
		CK(nng_pair1_open_raw(&front));
		CK(nng_pair1_open_raw(&back));
		CK(nng_pair1_open(&a));
		CK(nng_pair1_open(&b));
	} else if (strcmp(kind, "reqrep") == 0) {
		CK(nng_rep0_open_raw(&front));
		CK(nng_req0_open_raw(&back));
		CK(nng_req0_open(&a));
		CK(nng_rep0_open(&b));
	} else {
		CK(nng_bus0_open_raw(&front));
		back = front;
		CK(nng_bus0_open(&a));
		CK(nng_bus0_open(&b));
	}
	CK(nng_socket_set_ms(b, NNG_OPT_RECVTIMEO, 100));
	CK(nng_socket_set_ms(a, NNG_OPT_SENDTIMEO, 1000));
	CK(nng_listen(front, uf, &lf, 0));
	if (!same) {
		CK(nng_listen(back, ub, &lb, 0));
	} else {
		lb = lf;
	}
	CK(nng_dial(a, uf, NULL, 0));
	CK(nng_dial(b, same ? uf : ub, NULL, 0));
	CK(nng_aio_alloc(&aio, NULL, NULL));
	nng_device_aio(aio, front, back);

	// something must get through (best-effort protocols: retry for a bounded time)
	for (int i = 0; i < 40 && !fwd; i++) {
		nng_msg *m;
		CK(nng_msg_alloc(&m, 0));
		CK(nng_msg_append(m, "hello", 6));
		if (nng_sendmsg(a, m, NNG_FLAG_NONBLOCK) != 0) {
			nng_msg_free(m);
		}
		if (nng_recvmsg(b, &m, 0) == 0) {
			fwd = strcmp(nng_msg_body(m), "hello") == 0;
			nng_msg_free(m);
		}
	}
	int busy_f = nng_socket_close(front);
	int busy_b = nng_socket_close(back);
	nng_aio_cancel(aio);
	nng_aio_wait(aio);
	int result = nng_aio_result(aio);
	nng_aio_free(aio);
	int cf = nng_socket_close(front);
	int cb = nng_socket_close(back);
	int g  = nng_socket_get_int(back, NNG_OPT_RECVBUF, &v);
	int lc = nng_listener_close(lb);
	printf("devclose %s fwd=%s busy_front=%d busy_back=%d result=%d front=%d back=%d get=%d lclose=%d\n", kind,
	    fwd ? "ok" : "no", busy_f, busy_b, result, cf, cb, g, lc);
	fflush(stdout);
	nng_socket_close(a);
	nng_socket_close(b);
}

int
main(void)
{
	char line[128];
	CK(nng_init(NULL));
	while (fgets(line, sizeof(line), stdin) != NULL) {
		line[strcspn(line, "\r\n")] = 0;
		if (line[0]) {
			run(line);
		}
	}
	nng_fini();
	return (0);
}
