// UNIT op interpreter for the HTTP chunked decoder, base64 and SHA-1 (C16).
#include "core/nng_impl.h"
#include "supplemental/http/http_api.h"
#include "supplemental/websocket/base64.h"
#include "supplemental/websocket/sha1.h"

#include "common.h"

static size_t alloc_limit = (size_t) 1 << 40;
static void *
v_malloc(size_t sz)
{
	return (sz > alloc_limit ? NULL : malloc(sz));
}
static void *
v_calloc(size_t n, size_t sz)
{
	return (n * sz > alloc_limit ? NULL : calloc(n, sz));
}
static void
v_free(void *p, size_t sz)
{
	(void) sz;
	free(p);
}

static nni_http_chunks *cl;
static bool             dead;

static void
drop(void)
{
	if (cl != NULL) {
		nni_http_chunks_free(cl);
		cl = NULL;
	}
	dead = false;
}

int
main(void)
{
	nni_alloc_set(v_malloc, v_calloc, v_free);
	while (next_line()) {
		if (vn == 0) {
			continue;
		}
		const char *op = vw[0];
		if (strcmp(op, "reset") == 0) {
			drop();
			alloc_limit = (size_t) 1 << 40;
			printf("reset\n");
			fflush(stdout);
		} else if (strcmp(op, "verbose") == 0) {
			printf("ok\n");
		} else if (strcmp(op, "init") == 0 && vn == 3) {
			drop();
			alloc_limit = (size_t) 1 << 40;
			int rv      = nni_http_chunks_init(&cl, strtoull(vw[1], NULL, 10));
			alloc_limit = strtoull(vw[2], NULL, 10);
			printf("init rv=%d\n", rv);
		} else if (strcmp(op, "parse") == 0 && vn == 2) {
			if (cl == NULL || dead) {
				printf("parse dead\n");
				continue;
			}
			size_t   n, len = (size_t) -7;
			uint8_t *b  = parse_hex(vw[1], &n);
			int      rv = nni_http_chunks_parse(cl, b, n, &len);
			free(b);
			size_t          k  = 0;
			nni_http_chunk *ch = NULL;
			while ((ch = nni_http_chunks_iter(cl, ch)) != NULL) {
				k++;
			}
			printf("parse rv=%d n=%zu total=%zu chunks=%zu", rv, len, nni_http_chunks_size(cl), k);
			if (rv == 0) {
				// complete: the body is the concatenation of the chunks
				size_t   tot  = nni_http_chunks_size(cl);
				uint8_t *body = malloc(tot ? tot : 1);
				size_t   off  = 0;
				ch            = NULL;
				while ((ch = nni_http_chunks_iter(cl, ch)) != NULL) {
					memcpy(body + off, nni_http_chunk_data(ch), nni_http_chunk_size(ch));
					off += nni_http_chunk_size(ch);
				}
				put_digest("body", body, off);
				free(body);
			}
			printf("\n");
			if (rv != NNG_EAGAIN) {
				dead = true;
			}
		} else if (strcmp(op, "b64e") == 0 && vn == 3) {
			size_t   n, outlen = strtoull(vw[2], NULL, 10);
			uint8_t *b   = parse_hex(vw[1], &n);
			char    *out = malloc(outlen ? outlen : 1);
			size_t   r   = nni_base64_encode(b, n, out, outlen);
			if (r == (size_t) -1) {
				printf("b64e rv=-1\n");
			} else {
				printf("b64e rv=%zu nul=%d", r, out[r] == 0);
				put_hex("o", (uint8_t *) out, r);
				printf("\n");
			}
			free(b);
			free(out);
		} else if (strcmp(op, "b64d") == 0 && vn == 3) {
			size_t   n, outlen = strtoull(vw[2], NULL, 10);
			uint8_t *b   = parse_hex(vw[1], &n);
			uint8_t *out = malloc(outlen ? outlen : 1);
			size_t   r   = nni_base64_decode((const char *) b, n, out, outlen);
			if (r == (size_t) -1) {
				printf("b64d rv=-1\n");
			} else {
				printf("b64d rv=%zu", r);
				put_hex("o", out, r);
				printf("\n");
			}
			free(b);
			free(out);
		} else if (strcmp(op, "sha1") == 0 && vn == 3) {
			// sha1 <hex> <split>: update in two pieces
			size_t       n, cut = strtoull(vw[2], NULL, 10);
			uint8_t     *b = parse_hex(vw[1], &n);
			uint8_t      dg[20];
			nni_sha1_ctx ctx;
			if (cut > n) {
				cut = n;
			}
			nni_sha1_init(&ctx);
			nni_sha1_update(&ctx, b, cut);
			nni_sha1_update(&ctx, b + cut, n - cut);
			nni_sha1_final(&ctx, dg);
			printf("sha1");
			put_hex("d", dg, 20);
			printf("\n");
			free(b);
		} else {
			printf("bad-op\n");
		}
	}
	drop();
	free(vline);
	return (0);
}
