// REAL-execution probe for the users of the posix poller (C10, the contract of Model/Pfd.lean clause K2: "no arm
// once close has begun"): operations issued on a posix stream AFTER nng_stream_close must complete with NNG_ECLOSED.
// posix_tcpconn.c / posix_ipcconn.c / posix_sockfd.c *_send / *_recv that do not test c->closed call
// nni_posix_pfd_arm after nni_posix_pfd_close: EPOLL_CTL_MOD fails with ENOENT (ignored), the aio stays queued for
// ever, tcp_stop does not complete it, and nng_stream_free releases the connection under it.
//
// usage: r_pfd_callers <tcp|ipc> <recv|send> <armed|fresh> <dir>
//   armed: a receive was pending (POLLIN armed, the pfd is in the epoll set) when the stream was closed
//   fresh: the pfd was never armed before the close (EPOLL_CTL_ADD after the DEL would succeed)
// prints one line: `after-close <op> rv=<n> <name> ms=<elapsed>`; exit 0 iff rv == NNG_ECLOSED within 300 ms
#include <nng/nng.h>
#include <stdio.h>
#include <stdlib.h>
#include <string.h>

static void
fatal(const char *what, int rv)
{
	fprintf(stderr, "%s: %s\n", what, nng_strerror(rv));
	exit(3);
}

int
main(int argc, char **argv)
{
	char                 url[512];
	nng_stream_listener *l;
	nng_stream_dialer   *d;
	nng_aio             *aa, *da, *r1, *r2;
	nng_stream          *s1, *s2;
	static char          buf1[16], buf2[1 << 16];
	nng_iov              iov;
	int                  rv, port = 0;
	nng_time             t0, t1;

	if (argc < 5) {
		return (3);
	}
	if ((rv = nng_init(NULL)) != 0) fatal("init", rv);
	if (strcmp(argv[1], "tcp") == 0) {
		snprintf(url, sizeof(url), "tcp://127.0.0.1:0");
	} else {
		snprintf(url, sizeof(url), "ipc://%s/pfd-%s-%s.sock", argv[4], argv[2], argv[3]);
	}
	if ((rv = nng_stream_listener_alloc(&l, url)) != 0) fatal("listener_alloc", rv);
	if ((rv = nng_stream_listener_listen(l)) != 0) fatal("listen", rv);
	if (strcmp(argv[1], "tcp") == 0) {
		if ((rv = nng_stream_listener_get_int(l, NNG_OPT_BOUND_PORT, &port)) != 0) fatal("bound-port", rv);
		snprintf(url, sizeof(url), "tcp://127.0.0.1:%d", port);
	}
	if ((rv = nng_stream_dialer_alloc(&d, url)) != 0) fatal("dialer_alloc", rv);
	nng_aio_alloc(&aa, NULL, NULL);
	nng_aio_alloc(&da, NULL, NULL);
	nng_aio_alloc(&r1, NULL, NULL);
	nng_aio_alloc(&r2, NULL, NULL);
	nng_stream_listener_accept(l, aa);
	nng_stream_dialer_dial(d, da);
	nng_aio_wait(aa);
	nng_aio_wait(da);
	if ((rv = nng_aio_result(aa)) != 0) fatal("accept", rv);
	if ((rv = nng_aio_result(da)) != 0) fatal("dial", rv);
	s1 = nng_aio_get_output(da, 0);
	s2 = nng_aio_get_output(aa, 0);
	if (strcmp(argv[3], "armed") == 0) {
		iov.iov_buf = buf1;
		iov.iov_len = sizeof(buf1);
		nng_aio_set_iov(r1, 1, &iov);
		nng_stream_recv(s1, r1);
		nng_msleep(30);
	}
	nng_stream_close(s1);
	if (strcmp(argv[3], "armed") == 0) {
		nng_aio_wait(r1);
		if (nng_aio_result(r1) != NNG_ECLOSED) {
			printf("pending-at-close rv=%d %s\n", nng_aio_result(r1), nng_strerror(nng_aio_result(r1)));
		}
	}
	iov.iov_buf = buf2;
	iov.iov_len = sizeof(buf2);
	nng_aio_set_iov(r2, 1, &iov);
	nng_aio_set_timeout(r2, 300);
	t0 = nng_clock();
	if (strcmp(argv[2], "send") == 0) {
		nng_stream_send(s1, r2);
	} else {
		nng_stream_recv(s1, r2);
	}
	nng_aio_wait(r2);
	t1 = nng_clock();
	rv = nng_aio_result(r2);
	printf("after-close %s rv=%d %s ms=%d\n", argv[2], rv, nng_strerror(rv), (int) (t1 - t0));
	nng_stream_free(s1);
	nng_stream_free(s2);
	nng_aio_free(aa);
	nng_aio_free(da);
	nng_aio_free(r1);
	nng_aio_free(r2);
	nng_stream_dialer_free(d);
	nng_stream_listener_free(l);
	nng_fini();
	return (rv == NNG_ECLOSED ? 0 : 1);
}
