// UNIT op interpreter for the WebSocket opening handshake (C16, part U).
//
// websocket.c keeps ws_handler, ws_http_cb_dialer, ws_conn_cb, ws_make_accept and ws_contains_word static, so
// this file *includes* the real source text (tree under test, -I<repo>/src) and reaches them through their
// real callers:
//   server:  a real nni_ws_listener (nni_ws_listener_alloc, ws_listener_set_proto, ws_listener_close for
//            "closed"), a real HTTP connection object (nni_http_init from libnng.a) whose request is PARSED by
//            the real nni_http_read_req from the bytes of the op, then ws_handler(conn, listener, aio) is
//            called the way http_server.c calls a handler; the 101 response is written by the real
//            nng_http_write_response and the upgraded stream is taken with ws_listener_accept.
//   client:  a real nni_ws_dialer, ws_dialer_dial(); nni_http_client_connect is the only function replaced
//            (it hands ws_conn_cb a real HTTP connection object over the fake byte stream instead of a TCP one);
//            ws_conn_cb builds and writes the request, ws_http_cb_dialer reads the response with the real
//            nng_http_read_response and validates it; the user's aio result is the observed decision.
// Replaced: the byte stream under the HTTP connection (an `nng_stream` whose recv delivers the scripted bytes
// and whose send records), nni_http_client_connect, and nni_random (the 16 nonce bytes come from the op).
// The HTTP server front (http_server.c: routing, Host test, its own version/Transfer-Encoding tests and the
// `nni_http_set_version(conn, "HTTP/1.1")` it performs before calling a handler) is NOT in the path.
//
//   srv <closed 0|1> <lproto hex|~> <method hex> <version hex> <name=value;... hex pairs|->
//        -> srv parse=<rv>                      the real request parser failed the connection
//           srv st=<status>                     ws_handler set an error status
//           srv st=101 res=<hex>                upgraded: the bytes of the response head written to the stream
//   cli <nonce hex (16 bytes)> <dproto hex|~> <status> <reason hex> <name=value;...|->
//        -> cli rv=<n> req=<hex>                result of the dial; the request bytes written before the response was read
//   accept <key hex>  -> accept rv=<n> [a=<hex>]   ws_make_accept on an exact 29-byte heap buffer
//   word <phrase hex> <word hex> -> word <0|1>     ws_contains_word
#include <stddef.h>
#include <stdint.h>

#define nni_random vf_random
#define nni_http_client_connect vf_client_connect

#include "supplemental/websocket/websocket.c"

#include "common.h"

// ---------------------------------------------------------------- nni_random
static uint8_t  nonce[64];
static size_t   nonce_len, nonce_pos;
static uint32_t lcg = 12345;
uint32_t
vf_random(void)
{
	if (nonce_pos < nonce_len) {
		// only the low byte is used for the key: `raw[i] = (uint8_t) nni_random()`
		return (0xabcdef00u | nonce[nonce_pos++]);
	}
	lcg = lcg * 1664525u + 1013904223u;
	return (lcg);
}

// ---------------------------------------------------------------- fake byte stream
static uint8_t *cap; // everything written to the stream of the current op
static size_t   caplen, capcap;
static size_t   cap_at_first_recv;
static bool     recv_seen;

typedef struct fstream {
	nng_stream ops; // must be first
	nni_mtx    mtx;
	uint8_t   *in;
	size_t     inlen, inpos;
	nni_aio   *pend;
	bool       closed;
} fstream;

static void
fs_cancel(nni_aio *aio, void *arg, nng_err rv)
{
	fstream *fs = arg;
	nni_mtx_lock(&fs->mtx);
	if (fs->pend == aio) {
		fs->pend = NULL;
		nni_aio_finish_error(aio, rv);
	}
	nni_mtx_unlock(&fs->mtx);
}

static void
fs_recv(void *arg, nni_aio *aio)
{
	fstream *fs = arg;
	unsigned niov;
	nni_iov *iov;
	nni_aio_reset(aio);
	nni_mtx_lock(&fs->mtx);
	if (!recv_seen) {
		recv_seen         = true;
		cap_at_first_recv = caplen;
	}
	nni_aio_get_iov(aio, &niov, &iov);
	if (fs->closed) {
		nni_mtx_unlock(&fs->mtx);
		nni_aio_finish_error(aio, NNG_ECLOSED);
		return;
	}
	if (fs->inpos < fs->inlen && niov > 0 && iov[0].iov_len > 0) {
		size_t k = fs->inlen - fs->inpos;
		if (k > iov[0].iov_len) {
			k = iov[0].iov_len;
		}
		memcpy(iov[0].iov_buf, fs->in + fs->inpos, k);
		fs->inpos += k;
		nni_mtx_unlock(&fs->mtx);
		nni_aio_finish(aio, 0, k);
		return;
	}
	// nothing more will ever arrive: stay pending until the stream is closed
	if (!nni_aio_start(aio, fs_cancel, fs)) {
		nni_mtx_unlock(&fs->mtx);
		return;
	}
	fs->pend = aio;
	nni_mtx_unlock(&fs->mtx);
}

static void
fs_send(void *arg, nni_aio *aio)
{
	fstream *fs = arg;
	unsigned niov;
	nni_iov *iov;
	size_t   tot = 0;
	nni_aio_reset(aio);
	nni_mtx_lock(&fs->mtx);
	if (fs->closed) {
		nni_mtx_unlock(&fs->mtx);
		nni_aio_finish_error(aio, NNG_ECLOSED);
		return;
	}
	nni_aio_get_iov(aio, &niov, &iov);
	for (unsigned i = 0; i < niov; i++) {
		if (caplen + iov[i].iov_len + 1 > capcap) {
			capcap = (caplen + iov[i].iov_len + 1) * 2;
			cap    = realloc(cap, capcap);
		}
		memcpy(cap + caplen, iov[i].iov_buf, iov[i].iov_len);
		caplen += iov[i].iov_len;
		tot += iov[i].iov_len;
	}
	nni_mtx_unlock(&fs->mtx);
	nni_aio_finish(aio, 0, tot);
}

static void
fs_close(void *arg)
{
	fstream *fs = arg;
	nni_aio *aio;
	nni_mtx_lock(&fs->mtx);
	fs->closed = true;
	if ((aio = fs->pend) != NULL) {
		fs->pend = NULL;
		nni_aio_finish_error(aio, NNG_ECLOSED);
	}
	nni_mtx_unlock(&fs->mtx);
}

static void
fs_free(void *arg)
{
	fstream *fs = arg;
	fs_close(fs);
	nni_mtx_fini(&fs->mtx);
	free(fs->in);
	free(fs);
}

static nng_err
fs_get(void *arg, const char *name, void *buf, size_t *szp, nni_type t)
{
	(void) arg, (void) name, (void) buf, (void) szp, (void) t;
	return (NNG_ENOTSUP);
}
static nng_err
fs_set(void *arg, const char *name, const void *buf, size_t sz, nni_type t)
{
	(void) arg, (void) name, (void) buf, (void) sz, (void) t;
	return (NNG_ENOTSUP);
}

static fstream *
fs_new(const uint8_t *in, size_t inlen)
{
	fstream *fs = calloc(1, sizeof(*fs));
	nni_mtx_init(&fs->mtx);
	fs->in = malloc(inlen ? inlen : 1);
	memcpy(fs->in, in, inlen);
	fs->inlen       = inlen;
	fs->ops.s_free  = fs_free;
	fs->ops.s_close = fs_close;
	fs->ops.s_stop  = fs_close;
	fs->ops.s_recv  = fs_recv;
	fs->ops.s_send  = fs_send;
	fs->ops.s_get   = fs_get;
	fs->ops.s_set   = fs_set;
	return (fs);
}

static void
cap_reset(void)
{
	caplen = 0;
	cap_at_first_recv = 0;
	recv_seen         = false;
}

// ---------------------------------------------------------------- nni_http_client_connect
static uint8_t *script; // response the dialer will read
static size_t   scriptlen;

void
vf_client_connect(nni_http_client *c, nni_aio *aio)
{
	nng_http *conn;
	fstream  *fs;
	nng_err   rv;
	(void) c;
	nni_aio_reset(aio);
	fs = fs_new(script, scriptlen);
	if ((rv = nni_http_init(&conn, (nng_stream *) fs, true)) != NNG_OK) {
		nni_aio_finish_error(aio, rv);
		return;
	}
	nni_http_set_host(conn, "h"); // what http_client.c does with the URL's host
	nni_aio_set_output(aio, 0, conn);
	nni_aio_finish(aio, NNG_OK, 0);
}

// ---------------------------------------------------------------- helpers
static void
out_hex(const uint8_t *b, size_t n)
{
	if (n == 0) {
		putchar('-');
	}
	for (size_t i = 0; i < n; i++) {
		printf("%02x", b[i]);
	}
}

static char *
hex_str(const char *h) // hex word -> NUL-terminated C string ("~" -> NULL)
{
	size_t   n;
	uint8_t *b;
	char    *s;
	if (strcmp(h, "~") == 0) {
		return (NULL);
	}
	b = parse_hex(h, &n);
	s = malloc(n + 1);
	memcpy(s, b, n);
	s[n] = 0;
	free(b);
	return (s);
}

typedef struct {
	uint8_t *b;
	size_t   n, cap;
} buf;
static void
buf_add(buf *x, const void *p, size_t n)
{
	if (x->n + n + 1 > x->cap) {
		x->cap = (x->n + n + 1) * 2;
		x->b   = realloc(x->b, x->cap);
	}
	memcpy(x->b + x->n, p, n);
	x->n += n;
}

// "6e616d65=76616c;..." -> "name: val\r\n..." (the value bytes as given: leading/trailing blanks are the parser's job)
static void
add_headers(buf *x, char *spec)
{
	if (strcmp(spec, "-") == 0) {
		return;
	}
	char *save = NULL;
	for (char *p = strtok_r(spec, ";", &save); p != NULL; p = strtok_r(NULL, ";", &save)) {
		char *eq = strchr(p, '=');
		if (eq == NULL) {
			continue;
		}
		*eq      = 0;
		char *n  = hex_str(p);
		char *v  = hex_str(eq + 1);
		buf_add(x, n, strlen(n));
		buf_add(x, ":", 1);
		buf_add(x, v, strlen(v));
		buf_add(x, "\r\n", 2);
		free(n);
		free(v);
	}
}

static nng_url *url;

// ---------------------------------------------------------------- ops
static void
op_srv(void)
{
	nni_ws_listener *l;
	nng_http        *conn;
	nng_aio         *raio, *haio, *aaio;
	char            *lproto = hex_str(vw[2]);
	char            *meth   = hex_str(vw[3]);
	char            *vers   = hex_str(vw[4]);
	bool             closed = atoi(vw[1]) != 0;
	buf              rq     = { 0 };
	nng_err          rv;
	uint16_t         st;

	if (nni_ws_listener_alloc((nng_stream_listener **) &l, url) != NNG_OK) {
		printf("srv alloc-failed\n");
		return;
	}
	if (lproto != NULL) {
		ws_listener_set_proto(l, lproto, strlen(lproto) + 1, NNI_TYPE_STRING);
	}
	if (closed) {
		ws_listener_close(l); // not started: only sets l->closed
	} else {
		l->started = true; // stands in for listen(): lets ws_listener_accept queue our aio
	}
	buf_add(&rq, meth, strlen(meth));
	buf_add(&rq, " /x ", 4);
	buf_add(&rq, vers, strlen(vers));
	buf_add(&rq, "\r\n", 2);
	add_headers(&rq, vw[5]);
	buf_add(&rq, "\r\n", 2);

	cap_reset();
	fstream *fs = fs_new(rq.b, rq.n);
	nni_http_init(&conn, (nng_stream *) fs, false);
	nng_aio_alloc(&raio, NULL, NULL);
	nng_aio_alloc(&haio, NULL, NULL);
	nng_aio_alloc(&aaio, NULL, NULL);
	nng_aio_set_timeout(raio, 5000);
	nni_http_read_req(conn, raio);
	nng_aio_wait(raio);
	rv = nng_aio_result(raio);
	if (rv != NNG_OK || nng_http_get_status(conn) >= 400) {
		printf("srv parse=%d st=%d\n", (int) rv, (int) nng_http_get_status(conn));
		nni_http_conn_fini(conn);
		goto out;
	}
	// what http_sconn_rxdone does before calling a handler (except overwriting the version)
	nni_http_res_reset(nni_http_conn_res(conn));
	nni_http_set_status(conn, 0, NULL);

	nng_aio_set_timeout(aaio, 5000);
	ws_listener_accept(l, aaio);
	nni_aio_reset(haio);
	ws_handler(conn, l, haio);
	nng_aio_wait(haio);
	st = nng_http_get_status(conn);
	if (nng_aio_result(haio) != NNG_OK) {
		printf("srv handler-rv=%d\n", (int) nng_aio_result(haio));
		nng_aio_cancel(aaio);
		nng_aio_wait(aaio);
		nni_http_conn_fini(conn);
	} else if (st == NNG_HTTP_STATUS_SWITCHING) {
		nng_aio_wait(aaio);
		if (nng_aio_result(aaio) != NNG_OK) {
			printf("srv st=101 accept-rv=%d\n", (int) nng_aio_result(aaio));
		} else {
			nng_stream *s = nng_aio_get_output(aaio, 0);
			printf("srv st=101 res=");
			out_hex(cap, caplen);
			printf("\n");
			nng_stream_close(s);
			nng_stream_stop(s);
			nng_stream_free(s);
		}
	} else {
		printf("srv st=%d\n", (int) st);
		nng_aio_cancel(aaio);
		nng_aio_wait(aaio);
		nni_http_conn_fini(conn);
	}
out:
	nng_aio_free(raio);
	nng_aio_free(haio);
	nng_aio_free(aaio);
	ws_listener_free(l);
	free(rq.b);
	free(lproto);
	free(meth);
	free(vers);
}

static void
op_cli(void)
{
	nni_ws_dialer *d;
	nng_aio       *uaio;
	size_t         nl;
	uint8_t       *nb     = parse_hex(vw[1], &nl);
	char          *dproto = hex_str(vw[2]);
	char          *reason = hex_str(vw[4]);
	buf            rs     = { 0 };
	char           line[64];
	nng_err        rv;

	if (nni_ws_dialer_alloc((nng_stream_dialer **) &d, url) != NNG_OK) {
		printf("cli alloc-failed\n");
		return;
	}
	if (dproto != NULL) {
		ws_dialer_set_proto(d, dproto, strlen(dproto) + 1, NNI_TYPE_STRING);
	}
	memcpy(nonce, nb, nl < sizeof(nonce) ? nl : sizeof(nonce));
	nonce_len = nl < sizeof(nonce) ? nl : sizeof(nonce);
	nonce_pos = 0;
	snprintf(line, sizeof(line), "HTTP/1.1 %s ", vw[3]);
	buf_add(&rs, line, strlen(line));
	buf_add(&rs, reason, strlen(reason));
	buf_add(&rs, "\r\n", 2);
	add_headers(&rs, vw[5]);
	buf_add(&rs, "\r\n", 2);
	script    = rs.b;
	scriptlen = rs.n;

	cap_reset();
	nng_aio_alloc(&uaio, NULL, NULL);
	nng_aio_set_timeout(uaio, 5000);
	ws_dialer_dial(d, uaio);
	nng_aio_wait(uaio);
	rv = nng_aio_result(uaio);
	printf("cli rv=%d req=", (int) rv);
	out_hex(cap, recv_seen ? cap_at_first_recv : caplen);
	printf("\n");
	if (rv == NNG_OK) {
		nng_stream *s = nng_aio_get_output(uaio, 0);
		nng_stream_close(s);
		nng_stream_stop(s);
		nng_stream_free(s);
	}
	nng_aio_free(uaio);
	ws_dialer_free(d);
	nonce_len = nonce_pos = 0;
	free(rs.b);
	free(nb);
	free(dproto);
	free(reason);
}

int
main(void)
{
	if (nng_init(NULL) != 0) {
		fprintf(stderr, "nng_init failed\n");
		return (2);
	}
	if (nng_url_parse(&url, "ws://127.0.0.1:9/x") != 0) {
		fprintf(stderr, "url\n");
		return (2);
	}
	while (next_line()) {
		if (vn == 0) {
			continue;
		}
		const char *op = vw[0];
		if (strcmp(op, "reset") == 0) {
			printf("reset\n");
		} else if (strcmp(op, "verbose") == 0) {
			printf("ok\n");
		} else if (strcmp(op, "srv") == 0 && vn == 6) {
			op_srv();
		} else if (strcmp(op, "cli") == 0 && vn == 6) {
			op_cli();
		} else if (strcmp(op, "accept") == 0 && vn == 2) {
			char *key = hex_str(vw[1]);
			char *acc = malloc(29); // the size both callers pass
			memset(acc, 0x5a, 29);
			int rv = ws_make_accept(key, acc);
			if (rv == 0) {
				printf("accept rv=0 a=");
				out_hex((uint8_t *) acc, strlen(acc));
				printf("\n");
			} else {
				printf("accept rv=%d\n", rv);
			}
			free(acc);
			free(key);
		} else if (strcmp(op, "word") == 0 && vn == 3) {
			char *p = hex_str(vw[1]);
			char *w = hex_str(vw[2]);
			printf("word %d\n", ws_contains_word(p, w) ? 1 : 0);
			free(p);
			free(w);
		} else {
			printf("bad-op\n");
		}
		fflush(stdout);
	}
	nng_url_free(url);
	nng_fini();
	free(cap);
	free(vline);
	return (0);
}
