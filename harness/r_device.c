// REAL executor for C13: chains of nng_device over inproc, real threads, no simulation.
//
// Scenario lines on stdin, one deterministic summary line per scenario on stdout.
//
//   chain <id> <req|survey> <raw|cooked> <nclients> <nmsgs> <wait_ms> <ttlR> <ttl_1> ... <ttl_k>
//       clients -> device_1 -> ... -> device_k -> replier   (k may be 0)
//       device_i = nng_device(raw REP/RESPONDENT with ttl_i, raw REQ/SURVEYOR)
//       replier: cooked REP/RESPONDENT with ttl ttlR, answers 'R' ++ body.
//       clients: raw (own ids, sees everything routed to it) or cooked.
//     -> "chain <id> sent=N ok=N wrong=N missing=N replier=N stop=ok"
//        ok: replies that came back to the client that asked, id and body intact
//        wrong: anything else a client received (foreign tag, damaged body, duplicate)
//   stopall <id> <k>   (NOT used by the check: reproducer of a teardown finding)
//       k idle devices, all cancelled at once.  With k >= number of task threads every task
//       thread ends up in device_cb -> device_close -> sock_close waiting for work that only a
//       task thread can do, and the process hangs (run it under `timeout`).
//   loop <id> <nmsgs> <wait_ms> <ttlA> <ttlM>
//       client -> A = nng_device(repA, reqA) -> M = hand-written forwarder(repM -> reqM) -> A ...
//       a cycle; M counts what it is handed and the header words it sees.
//     -> "loop <id> sent=N seen=N maxwords=W replies=N stop=ok"
//
// Waiting is bounded everywhere (wait_ms on receives, 5 s on connection set-up); there are
// no sleeps used as synchronisation: connection set-up is awaited through pipe events.
#include <nng/nng.h>
#include <pthread.h>
#include <stdio.h>
#include <stdlib.h>
#include <string.h>

#define MAXDEV 24
#define MAXCLI 8
#define MAXMSG 64

static nng_mtx *mtx;
static nng_cv  *cv;
static int      pipes_up;

static void
fatal(const char *what, int rv)
{
	printf("FATAL %s: %s\n", what, nng_strerror(rv));
	fflush(stdout);
	exit(3);
}
#define CK(x)                                \
	do {                                 \
		int rv_ = (x);               \
		if (rv_ != 0) {              \
			fatal(#x, rv_);      \
		}                            \
	} while (0)

static void
pipe_cb(nng_pipe p, nng_pipe_ev ev, void *arg)
{
	(void) p;
	(void) arg;
	if (ev == NNG_PIPE_EV_ADD_POST) {
		nng_mtx_lock(mtx);
		pipes_up++;
		nng_cv_wake(cv);
		nng_mtx_unlock(mtx);
	}
}

static void
watch(nng_socket s)
{
	CK(nng_pipe_notify(s, NNG_PIPE_EV_ADD_POST, pipe_cb, NULL));
}

static int
await_pipes(int want)
{
	nng_time end = nng_clock() + 5000;
	int      ok;
	nng_mtx_lock(mtx);
	while (pipes_up < want) {
		if (nng_cv_until(cv, end) != 0) {
			break;
		}
	}
	ok = pipes_up >= want;
	nng_mtx_unlock(mtx);
	return (ok);
}

static bool survey;

static int
open_client(nng_socket *s, bool raw)
{
	if (survey) {
		return (raw ? nng_surveyor0_open_raw(s) : nng_surveyor0_open(s));
	}
	return (raw ? nng_req0_open_raw(s) : nng_req0_open(s));
}
static int
open_front(nng_socket *s) // the side of a device that faces the requesters
{
	return (survey ? nng_respondent0_open_raw(s) : nng_rep0_open_raw(s));
}
static int
open_back(nng_socket *s)
{
	return (survey ? nng_surveyor0_open_raw(s) : nng_req0_open_raw(s));
}
static int
open_replier(nng_socket *s)
{
	return (survey ? nng_respondent0_open(s) : nng_rep0_open(s));
}

// ---- payloads: tag = client, seq; length and filler derived from them
static size_t
mk_payload(uint8_t *buf, int sc, int c, int q)
{
	size_t n = 6 + (size_t) ((q * 7 + c * 13 + sc) % 48);
	buf[0]   = 'Q';
	buf[1]   = (uint8_t) c;
	buf[2]   = (uint8_t) q;
	buf[3]   = (uint8_t) sc;
	for (size_t i = 4; i < n; i++) {
		buf[i] = (uint8_t) (c * 31 + q * 17 + i * 7 + sc);
	}
	// make some payloads start like routing words (hop-looking / id-looking bytes)
	if (q % 5 == 3) {
		buf[0] = 0x80;
	} else if (q % 5 == 4) {
		buf[0] = 0x00;
	}
	return (n);
}

struct replier {
	nng_socket s;
	int        seen;
};

static void *
replier_main(void *arg)
{
	struct replier *r = arg;
	for (;;) {
		nng_msg *m;
		if (nng_recvmsg(r->s, &m, 0) != 0) {
			break;
		}
		r->seen++;
		uint8_t R = 'R';
		if (nng_msg_insert(m, &R, 1) != 0 || nng_sendmsg(r->s, m, 0) != 0) {
			nng_msg_free(m);
		}
	}
	return (NULL);
}

struct client {
	nng_socket s;
	bool       raw;
	int        sc, c, nmsgs, wait_ms;
	int        sent, ok, wrong;
	bool       got[MAXMSG];
};

static bool
reply_ok(struct client *cl, nng_msg *m, int want_q)
{
	uint8_t  exp[64];
	uint8_t *b = nng_msg_body(m);
	size_t   n = nng_msg_len(m);
	int      q;
	if (cl->raw) {
		uint32_t id;
		if (nng_msg_header_len(m) != 4) {
			return (false);
		}
		memcpy(exp, nng_msg_header(m), 4);
		id = ((uint32_t) exp[0] << 24) | ((uint32_t) exp[1] << 16) | ((uint32_t) exp[2] << 8) | exp[3];
		if ((id >> 31) != 1 || ((id >> 16) & 0xff) != (uint32_t) cl->c || ((id >> 24) & 0x7f) != (uint32_t) (cl->sc & 0x7f)) {
			return (false);
		}
		q = (int) (id & 0xffff);
	} else {
		q = want_q;
	}
	if (q < 0 || q >= cl->nmsgs || cl->got[q]) {
		return (false);
	}
	size_t en = mk_payload(exp, cl->sc, cl->c, q);
	if (n != en + 1 || b[0] != 'R' || memcmp(b + 1, exp, en) != 0) {
		return (false);
	}
	cl->got[q] = true;
	return (true);
}

static void *
client_main(void *arg)
{
	struct client *cl = arg;
	uint8_t        buf[64];
	CK(nng_socket_set_ms(cl->s, NNG_OPT_RECVTIMEO, cl->wait_ms));
	CK(nng_socket_set_ms(cl->s, NNG_OPT_SENDTIMEO, 5000));
	if (cl->raw && !survey) {
		// burst: all requests at once, then collect (XREP pipes queue 64 replies)
		for (int q = 0; q < cl->nmsgs; q++) {
			nng_msg *m;
			uint32_t id = 0x80000000u | ((uint32_t) (cl->sc & 0x7f) << 24) | ((uint32_t) cl->c << 16) | (uint32_t) q;
			CK(nng_msg_alloc(&m, 0));
			CK(nng_msg_header_append_u32(m, id));
			CK(nng_msg_append(m, buf, mk_payload(buf, cl->sc, cl->c, q)));
			if (nng_sendmsg(cl->s, m, 0) != 0) {
				nng_msg_free(m);
				break;
			}
			cl->sent++;
		}
		while (cl->ok + cl->wrong < cl->sent) {
			nng_msg *m;
			if (nng_recvmsg(cl->s, &m, 0) != 0) {
				break; // bounded wait expired: nothing (more) is coming
			}
			if (reply_ok(cl, m, -1)) {
				cl->ok++;
			} else {
				cl->wrong++;
			}
			nng_msg_free(m);
		}
	} else {
		// one exchange at a time per client: responses are best effort under back-pressure
		// (an XRESPONDENT pipe queues 2, an XSURVEYOR pipe 16, and drops beyond that), so
		// the number in flight stays below every queue depth on the path
		for (int q = 0; q < cl->nmsgs; q++) {
			nng_msg *m;
			CK(nng_msg_alloc(&m, 0));
			if (cl->raw) {
				CK(nng_msg_header_append_u32(m,
				    0x80000000u | ((uint32_t) (cl->sc & 0x7f) << 24) | ((uint32_t) cl->c << 16) | (uint32_t) q));
			}
			CK(nng_msg_append(m, buf, mk_payload(buf, cl->sc, cl->c, q)));
			if (nng_sendmsg(cl->s, m, 0) != 0) {
				nng_msg_free(m);
				break;
			}
			cl->sent++;
			if (nng_recvmsg(cl->s, &m, 0) != 0) {
				// nothing came back within the bound; later requests take the same path
				cl->sent += cl->nmsgs - q - 1;
				break;
			}
			if (reply_ok(cl, m, q)) {
				cl->ok++;
			} else {
				cl->wrong++;
			}
			nng_msg_free(m);
		}
	}
	return (NULL);
}

static void
url_of(char *buf, size_t n, const char *tag, int sc, int i)
{
	snprintf(buf, n, "inproc://c13-%s-%d-%d", tag, sc, i);
}

static void
set_ttl(nng_socket s, int ttl)
{
	CK(nng_socket_set_int(s, NNG_OPT_MAXTTL, ttl));
}

static void
do_chain(int sc, bool raw, int ncli, int nmsgs, int wait_ms, int ttlR, int k, int *ttl)
{
	nng_socket     front[MAXDEV], back[MAXDEV];
	nng_aio       *daio[MAXDEV];
	struct replier rep;
	struct client  cl[MAXCLI];
	pthread_t      rth, cth[MAXCLI];
	char           url[64];
	int            stopped = 0;

	memset(&rep, 0, sizeof(rep));
	memset(cl, 0, sizeof(cl));
	nng_mtx_lock(mtx);
	pipes_up = 0;
	nng_mtx_unlock(mtx);

	// build from the tail so that every dial finds its listener
	CK(open_replier(&rep.s));
	set_ttl(rep.s, ttlR);
	watch(rep.s);
	url_of(url, sizeof(url), "c", sc, k);
	CK(nng_listen(rep.s, url, NULL, 0));
	for (int i = k - 1; i >= 0; i--) {
		CK(open_front(&front[i]));
		CK(open_back(&back[i]));
		set_ttl(front[i], ttl[i]);
		set_ttl(back[i], ((ttl[i] * 7 + i) % 15) + 1); // irrelevant by the model; vary it
		watch(front[i]);
		watch(back[i]);
		url_of(url, sizeof(url), "c", sc, i + 1);
		CK(nng_dial(back[i], url, NULL, 0));
		url_of(url, sizeof(url), "c", sc, i);
		CK(nng_listen(front[i], url, NULL, 0));
		CK(nng_aio_alloc(&daio[i], NULL, NULL));
		nng_device_aio(daio[i], front[i], back[i]);
	}
	url_of(url, sizeof(url), "c", sc, 0);
	for (int c = 0; c < ncli; c++) {
		CK(open_client(&cl[c].s, raw));
		watch(cl[c].s);
		cl[c].raw     = raw;
		cl[c].sc      = sc;
		cl[c].c       = c;
		cl[c].nmsgs   = nmsgs;
		cl[c].wait_ms = wait_ms;
		if (survey && !raw) {
			CK(nng_socket_set_ms(cl[c].s, NNG_OPT_SURVEYOR_SURVEYTIME, 5000));
		}
		CK(nng_dial(cl[c].s, url, NULL, 0));
	}
	if (!await_pipes(2 * (k + ncli))) {
		fatal("connections not established within 5 s", NNG_ETIMEDOUT);
	}
	pthread_create(&rth, NULL, replier_main, &rep);
	for (int c = 0; c < ncli; c++) {
		pthread_create(&cth[c], NULL, client_main, &cl[c]);
	}
	int sent = 0, ok = 0, wrong = 0;
	for (int c = 0; c < ncli; c++) {
		pthread_join(cth[c], NULL);
		sent += cl[c].sent;
		ok += cl[c].ok;
		wrong += cl[c].wrong;
		nng_socket_close(cl[c].s);
	}
	// One device at a time: the last device_cb of a device closes both sockets synchronously
	// on a task thread (device.c device_close), so cancelling as many devices as there are
	// task threads at once blocks every task thread and the closes never finish.
	for (int i = 0; i < k; i++) {
		nng_aio_cancel(daio[i]);
		nng_aio_wait(daio[i]);
		if (nng_aio_result(daio[i]) == NNG_ECANCELED) {
			stopped++;
		}
		nng_aio_free(daio[i]);
	}
	nng_socket_close(rep.s);
	pthread_join(rth, NULL);
	printf("chain %d sent=%d ok=%d wrong=%d missing=%d replier=%d stop=%s\n", sc, sent, ok, wrong, sent - ok - wrong, rep.seen,
	    stopped == k ? "ok" : "BAD");
	fflush(stdout);
}

struct fwd {
	nng_socket in, out;
	int        seen, maxwords, wait_ms;
};

static void *
fwd_main(void *arg)
{
	struct fwd *f = arg;
	CK(nng_socket_set_ms(f->in, NNG_OPT_RECVTIMEO, f->wait_ms));
	CK(nng_socket_set_ms(f->out, NNG_OPT_SENDTIMEO, 5000));
	for (;;) {
		nng_msg *m;
		if (nng_recvmsg(f->in, &m, 0) != 0) {
			break; // idle for wait_ms: the loop has died out
		}
		f->seen++;
		int w = (int) (nng_msg_header_len(m) / 4);
		if (w > f->maxwords) {
			f->maxwords = w;
		}
		if (f->seen > 100000 || nng_sendmsg(f->out, m, 0) != 0) {
			nng_msg_free(m);
			break;
		}
	}
	return (NULL);
}

static void
do_loop(int sc, int nmsgs, int wait_ms, int ttlA, int ttlM)
{
	nng_socket repA, reqA, cli;
	nng_aio   *daio;
	struct fwd f;
	pthread_t  fth;
	char       ua[64], um[64];
	uint8_t    buf[64];
	int        sent = 0, replies = 0;

	survey = false;
	memset(&f, 0, sizeof(f));
	f.wait_ms = wait_ms;
	nng_mtx_lock(mtx);
	pipes_up = 0;
	nng_mtx_unlock(mtx);
	url_of(ua, sizeof(ua), "la", sc, 0);
	url_of(um, sizeof(um), "lm", sc, 0);
	CK(nng_rep0_open_raw(&repA));
	CK(nng_req0_open_raw(&reqA));
	CK(nng_rep0_open_raw(&f.in));
	CK(nng_req0_open_raw(&f.out));
	CK(nng_req0_open_raw(&cli));
	set_ttl(repA, ttlA);
	set_ttl(f.in, ttlM);
	watch(repA);
	watch(reqA);
	watch(f.in);
	watch(f.out);
	watch(cli);
	CK(nng_listen(repA, ua, NULL, 0));
	CK(nng_listen(f.in, um, NULL, 0));
	CK(nng_dial(reqA, um, NULL, 0));
	CK(nng_dial(f.out, ua, NULL, 0));
	CK(nng_dial(cli, ua, NULL, 0));
	CK(nng_aio_alloc(&daio, NULL, NULL));
	nng_device_aio(daio, repA, reqA);
	if (!await_pipes(6)) {
		fatal("connections not established within 5 s", NNG_ETIMEDOUT);
	}
	pthread_create(&fth, NULL, fwd_main, &f);
	CK(nng_socket_set_ms(cli, NNG_OPT_RECVTIMEO, wait_ms));
	CK(nng_socket_set_ms(cli, NNG_OPT_SENDTIMEO, 5000));
	for (int q = 0; q < nmsgs; q++) {
		nng_msg *m;
		CK(nng_msg_alloc(&m, 0));
		CK(nng_msg_header_append_u32(m, 0x80000000u | (uint32_t) q));
		CK(nng_msg_append(m, buf, mk_payload(buf, sc, 0, q)));
		if (nng_sendmsg(cli, m, 0) != 0) {
			nng_msg_free(m);
			break;
		}
		sent++;
	}
	pthread_join(fth, NULL); // ends once the forwarder has been idle for wait_ms
	for (;;) {
		nng_msg *m;
		if (nng_recvmsg(cli, &m, 0) != 0) {
			break;
		}
		replies++;
		nng_msg_free(m);
	}
	nng_aio_cancel(daio);
	nng_aio_wait(daio);
	int drv = nng_aio_result(daio);
	nng_aio_free(daio);
	nng_socket_close(cli);
	nng_socket_close(f.in);
	nng_socket_close(f.out);
	printf("loop %d sent=%d seen=%d maxwords=%d replies=%d stop=%s\n", sc, sent, f.seen, f.maxwords, replies,
	    drv == NNG_ECANCELED ? "ok" : "BAD");
	fflush(stdout);
}

static void
do_stopall(int sc, int k)
{
	static nng_socket f[256], b[256];
	static nng_aio   *a[256];
	char              url[64];
	survey = false;
	if (k > 256) {
		k = 256;
	}
	for (int i = 0; i < k; i++) {
		CK(open_front(&f[i]));
		CK(open_back(&b[i]));
		url_of(url, sizeof(url), "s", sc, i);
		CK(nng_listen(f[i], url, NULL, 0));
		CK(nng_aio_alloc(&a[i], NULL, NULL));
		nng_device_aio(a[i], f[i], b[i]);
	}
	for (int i = 0; i < k; i++) {
		nng_aio_cancel(a[i]);
	}
	for (int i = 0; i < k; i++) {
		nng_aio_wait(a[i]);
		nng_aio_free(a[i]);
	}
	printf("stopall %d stopped=%d\n", sc, k);
	fflush(stdout);
}

int
main(void)
{
	char line[1024];
	CK(nng_init(NULL));
	CK(nng_mtx_alloc(&mtx));
	CK(nng_cv_alloc(&cv, mtx));
	while (fgets(line, sizeof(line), stdin) != NULL) {
		char *w[40];
		int   n = 0;
		for (char *t = strtok(line, " \t\r\n"); t != NULL && n < 40; t = strtok(NULL, " \t\r\n")) {
			w[n++] = t;
		}
		if (n == 0) {
			continue;
		}
		if (strcmp(w[0], "chain") == 0 && n >= 8) {
			int ttl[MAXDEV];
			int k = n - 8;
			if (k > MAXDEV || atoi(w[4]) > MAXCLI || atoi(w[5]) > MAXMSG) {
				printf("bad-scenario\n");
				continue;
			}
			for (int i = 0; i < k; i++) {
				ttl[i] = atoi(w[8 + i]);
			}
			survey = strcmp(w[2], "survey") == 0;
			do_chain(atoi(w[1]), strcmp(w[3], "raw") == 0, atoi(w[4]), atoi(w[5]), atoi(w[6]), atoi(w[7]), k, ttl);
		} else if (strcmp(w[0], "stopall") == 0 && n == 3) {
			do_stopall(atoi(w[1]), atoi(w[2]));
		} else if (strcmp(w[0], "loop") == 0 && n == 6) {
			do_loop(atoi(w[1]), atoi(w[2]), atoi(w[3]), atoi(w[4]), atoi(w[5]));
		} else {
			printf("bad-scenario\n");
		}
		fflush(stdout);
	}
	nng_cv_free(cv);
	nng_mtx_free(mtx);
	nng_fini();
	printf("end\n");
	return (0);
}
