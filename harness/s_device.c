// SIM op interpreter for nng_device (C13 / C09 / C08 / C06, device half): up to four sockets of any
// protocol (raw or cooked), each with its own mock listener and any number of mock pipes, and ONE
// nng_device_aio between two of them (or a reflector on one), all under the simulated platform
// (baton scheduler, virtual clock).  Messages are injected on mock pipes and the sends the protocols
// hand to the mock transport are completed in the order the test chooses.  One output line per input
// line = all events until the library quiesced, joined by " ; ".
//
// Link with simplat.c simev.c mocktran.c valloc.c.
//
// ops:
//   sched <seed>                        scheduler seed                                  -> ok
//   open <s> <proto> [raw]              open + listen on gopher://s<k>                  -> rv n proto=<hex> peer=<hex> flags=<n>
//   setopt <s> <name> <int|ms|size> <v>                                                 -> rv n
//   pipe_add <s> <peer-hex>             a peer connects to socket s                     -> pipe <p> <id>
//   pipe_drop <p>                       transport-side loss                             -> rv n
//   recv_done <p> <hex|!err>            the transport delivers a message on pipe p; `@pp` inside the hex
//                                       (pp = two hex digits) stands for the 4-byte id of mock pipe pp
//                                                                                       -> rv 0 | rv -1 (no receive armed)
//   send_done <p> <rv>                  the parked send of pipe p completes             -> rv 0 | rv -1 (nothing parked)
//   device <s|-> <s|->                  nng_device_aio(user, s1, s2)  (`-` = NNG_SOCKET_INITIALIZER)
//   cancel | abort <rv> | stop          nng_aio_cancel / nng_aio_abort / nng_aio_stop on the user aio
//   close <s>                           nng_socket_close                                -> rv n
//   probe <s>                           nng_socket_get_ms(RECVTIMEO)                     -> rv n
//   usend <s> <bodyhex> | urecv <s>     application send / receive (non-blocking) on a socket -> rv n
//   end                                 marker for the judge/model                      -> end
//   fini                                close all, nng_fini, allocator balance          -> fini live=.. bytes=.. badfree=..
// events: done <rv> (user aio completed), psend <p> <hdr> <body>, parm <p>, pclosed <p>.
#include <nng/nng.h>

#include "core/nng_impl.h"

#include "common.h"
#include "simev.h"
#include "valloc.h"

#define MAXS 4
#define MAXPI 64

static nng_socket socks[MAXS];
static bool       sock_open[MAXS];
static int        ep_of[MAXS];
static nng_aio   *uaio;
static bool       dev_started;
static int        pipe_sock[MAXPI];
static bool       inited;

extern uint32_t mock_pipe_id0(int);

static struct proto {
	const char *name;
	int (*open)(nng_socket *);
	int (*open_raw)(nng_socket *);
} protos[] = {
	{ "push", nng_push0_open, nng_push0_open_raw },
	{ "pull", nng_pull0_open, nng_pull0_open_raw },
	{ "pub", nng_pub0_open, nng_pub0_open_raw },
	{ "sub", nng_sub0_open, nng_sub0_open_raw },
	{ "req", nng_req0_open, nng_req0_open_raw },
	{ "rep", nng_rep0_open, nng_rep0_open_raw },
	{ "pair0", nng_pair0_open, nng_pair0_open_raw },
	{ "pair1", nng_pair1_open, nng_pair1_open_raw },
	{ "bus", nng_bus0_open, nng_bus0_open_raw },
	{ "surveyor", nng_surveyor0_open, nng_surveyor0_open_raw },
	{ "respondent", nng_respondent0_open, nng_respondent0_open_raw },
	{ NULL, NULL, NULL },
};

static void
user_cb(void *arg)
{
	(void) arg;
	ev_add("done %d", (int) nng_aio_result(uaio));
}

static void
lib_init(void)
{
	nng_init_params ip;
	memset(&ip, 0, sizeof(ip));
	ip.malloc_fn = valloc_malloc;
	ip.calloc_fn = valloc_calloc;
	ip.free_fn   = valloc_free;
	nng_init(&ip);
	mock_register();
	nng_aio_alloc(&uaio, user_cb, NULL);
	nng_aio_set_timeout(uaio, NNG_DURATION_INFINITE);
	inited = true;
}

static void
lib_fini(bool report)
{
	unsigned long live, bytes, bad, tot;
	if (!inited) {
		if (report) {
			printf("fini live=0 bytes=0 badfree=0\n");
		}
		return;
	}
	if (dev_started) {
		nng_aio_cancel(uaio); // the device owns its sockets: this is the only way to get them closed
		sim_quiesce();
	}
	for (int s = 0; s < MAXS; s++) {
		if (sock_open[s]) {
			nng_socket_close(socks[s]); // ECLOSED when a device closed it already
			sock_open[s] = false;
		}
	}
	sim_quiesce();
	nng_aio_stop(uaio);
	nng_aio_free(uaio);
	uaio = NULL;
	sim_quiesce();
	nng_fini();
	sim_reset_mutex_table();
	valloc_stats(&live, &bytes, &bad, &tot);
	if (report) {
		printf("fini live=%lu bytes=%lu badfree=%lu\n", live, bytes, bad);
	}
	valloc_reset_counters();
	ev_clear();
	mock_reset();
	dev_started = false;
	inited      = false;
	for (int i = 0; i < MAXPI; i++) {
		pipe_sock[i] = -1;
	}
}

static void
finish_line(void)
{
	sim_quiesce();
	ev_flush();
}

// hex with @pp tokens -> bytes
static uint8_t *
parse_wire(const char *s, size_t *lenp)
{
	size_t   cap = strlen(s) * 2 + 8;
	uint8_t *b   = malloc(cap);
	size_t   n   = 0;
	if (strcmp(s, "-") == 0) {
		*lenp = 0;
		return (b);
	}
	while (*s) {
		if (*s == '@' && hexval(s[1]) >= 0 && hexval(s[2]) >= 0) {
			int      pi = hexval(s[1]) * 16 + hexval(s[2]);
			uint32_t id = (pi < MAXPI) ? mock_pipe_id0(pi) : 0;
			b[n++]      = (uint8_t) (id >> 24);
			b[n++]      = (uint8_t) (id >> 16);
			b[n++]      = (uint8_t) (id >> 8);
			b[n++]      = (uint8_t) id;
			s += 3;
		} else if (hexval(s[0]) >= 0 && hexval(s[1]) >= 0) {
			b[n++] = (uint8_t) (hexval(s[0]) * 16 + hexval(s[1]));
			s += 2;
		} else {
			break;
		}
	}
	*lenp = n;
	return (b);
}

static nng_socket
sock_arg(const char *w)
{
	nng_socket none = NNG_SOCKET_INITIALIZER;
	if (w[0] == '-') {
		return (none);
	}
	int s = atoi(w);
	if (s < 0 || s >= MAXS) {
		return (none);
	}
	return (socks[s]);
}

#include <signal.h>
#include <unistd.h>
static void
on_alarm(int sig)
{
	(void) sig;
	static const char msg[] = "HANG\n";
	fflush(stdout);
	(void) !write(1, msg, sizeof(msg) - 1);
	_exit(4);
}

int
main(void)
{
	setvbuf(stdout, NULL, _IOLBF, 0);
	signal(SIGALRM, on_alarm);
	for (int i = 0; i < MAXPI; i++) {
		pipe_sock[i] = -1;
	}
	lib_init();
	while (next_line()) {
		if (vn == 0) {
			continue;
		}
		alarm(90);
		const char *op = vw[0];
#define IS(x) (strcmp(op, x) == 0)
		if (IS("reset") || IS("fini")) {
			lib_fini(IS("fini"));
			if (IS("reset")) {
				lib_init();
				printf("reset\n");
			}
			continue;
		}
		if (!inited) {
			lib_init();
		}
		if (IS("sched") && vn >= 2) {
			sim_seed(strtoull(vw[1], NULL, 10));
			sim_seed_user(0x1234567);
			printf("ok\n");
			continue;
		}
		if (IS("end")) {
			printf("end\n");
			continue;
		}
		if (IS("open") && vn >= 3) {
			int s  = atoi(vw[1]);
			int rv = NNG_ENOTSUP;
			if (s < 0 || s >= MAXS || sock_open[s]) {
				printf("bad-op\n");
				continue;
			}
			for (struct proto *p = protos; p->name; p++) {
				if (strcmp(p->name, vw[2]) == 0) {
					rv = (vn >= 4 && strcmp(vw[3], "raw") == 0) ? p->open_raw(&socks[s]) : p->open(&socks[s]);
				}
			}
			if (rv == 0) {
				char url[32];
				snprintf(url, sizeof(url), "gopher://s%d", s);
				ep_of[s] = mock_neps();
				rv       = nng_listen(socks[s], url, NULL, 0);
				sock_open[s] = true;
			}
			if (rv == 0) {
				nni_sock *ns = NULL;
				if (nni_sock_find(&ns, nng_socket_id(socks[s])) == 0) {
					ev_add("rv 0 proto=%x peer=%x flags=%u", (unsigned) nni_sock_proto_id(ns), (unsigned) nni_sock_peer_id(ns),
					    (unsigned) nni_sock_flags(ns));
					nni_sock_rele(ns);
				} else {
					ev_add("rv 0");
				}
			} else {
				ev_add("rv %d", rv);
			}
			finish_line();
		} else if (IS("setopt") && vn == 5) {
			int         s = atoi(vw[1]);
			const char *n = vw[2];
			long long   v = strtoll(vw[4], NULL, 10);
			int         rv;
			if (s < 0 || s >= MAXS) {
				printf("bad-op\n");
				continue;
			}
			rv = strcmp(vw[3], "int") == 0 ? nng_socket_set_int(socks[s], n, (int) v)
			    : strcmp(vw[3], "ms") == 0 ? nng_socket_set_ms(socks[s], n, (nng_duration) v)
			                               : nng_socket_set_size(socks[s], n, (size_t) v);
			ev_add("rv %d", rv);
			finish_line();
		} else if (IS("pipe_add") && vn == 3) {
			int s = atoi(vw[1]);
			if (s < 0 || s >= MAXS || !sock_open[s]) {
				printf("bad-op\n");
				continue;
			}
			int p = mock_conn_done(ep_of[s], (uint16_t) strtoul(vw[2], NULL, 16), 0);
			if (p >= 0 && p < MAXPI) {
				pipe_sock[p] = s;
				ev_add("pipe %d %u", p, (unsigned) mock_pipe_id0(p));
			} else {
				ev_add("pipe %d 0", p);
			}
			finish_line();
		} else if (IS("pipe_drop") && vn == 2) {
			ev_add("rv %d", mock_pipe_lose(atoi(vw[1])));
			finish_line();
		} else if (IS("recv_done") && vn == 3) {
			int p = atoi(vw[1]);
			int r;
			if (vw[2][0] == '!') {
				r = mock_recv_done(p, NULL, NULL, 0, atoi(vw[2] + 1));
			} else {
				size_t   len;
				uint8_t *d = parse_wire(vw[2], &len);
				r          = mock_recv_done(p, NULL, d, len, 0);
				free(d);
			}
			ev_add("rv %d", r);
			finish_line();
		} else if (IS("send_done") && vn == 3) {
			ev_add("rv %d", mock_send_done(atoi(vw[1]), atoi(vw[2])));
			finish_line();
		} else if (IS("device") && vn == 3) {
			if (dev_started) {
				printf("bad-op\n");
				continue;
			}
			dev_started = true;
			nng_device_aio(uaio, sock_arg(vw[1]), sock_arg(vw[2]));
			finish_line();
		} else if (IS("cancel")) {
			nng_aio_cancel(uaio);
			finish_line();
		} else if (IS("abort") && vn == 2) {
			nng_aio_abort(uaio, atoi(vw[1]));
			finish_line();
		} else if (IS("stop")) {
			nng_aio_stop(uaio);
			finish_line();
		} else if (IS("close") && vn == 2) {
			int s = atoi(vw[1]);
			if (s < 0 || s >= MAXS) {
				printf("bad-op\n");
				continue;
			}
			int rv = nng_socket_close(socks[s]);
			if (rv == 0) {
				sock_open[s] = false;
			}
			ev_add("rv %d", rv);
			finish_line();
		} else if (IS("advance") && vn == 2) {
			// virtual time passes: a device must keep forwarding whatever receive/send time-outs its sockets have
			sim_advance(atoi(vw[1]));
			finish_line();
		} else if (IS("probe") && vn == 2) {
			int          s = atoi(vw[1]);
			nng_duration d;
			if (s < 0 || s >= MAXS) {
				printf("bad-op\n");
				continue;
			}
			ev_add("rv %d", nng_socket_get_ms(socks[s], NNG_OPT_RECVTIMEO, &d));
			finish_line();
		} else if (IS("usend") && vn == 3) {
			int      s = atoi(vw[1]);
			size_t   bl;
			uint8_t *b = parse_hex(vw[2], &bl);
			nng_msg *m;
			int      rv;
			if (s < 0 || s >= MAXS || nng_msg_alloc(&m, 0) != 0) {
				free(b);
				printf("bad-op\n");
				continue;
			}
			nng_msg_append(m, b, bl);
			free(b);
			sim_jump_slack(1);
			rv = nng_sendmsg(socks[s], m, NNG_FLAG_NONBLOCK);
			sim_jump_slack(0);
			if (rv != 0) {
				nng_msg_free(m);
			}
			ev_add("rv %d", rv);
			finish_line();
		} else if (IS("urecv") && vn == 2) {
			int      s = atoi(vw[1]);
			nng_msg *m = NULL;
			int      rv;
			if (s < 0 || s >= MAXS) {
				printf("bad-op\n");
				continue;
			}
			sim_jump_slack(1);
			rv = nng_recvmsg(socks[s], &m, NNG_FLAG_NONBLOCK);
			sim_jump_slack(0);
			if (rv == 0) {
				nng_msg_free(m);
			}
			ev_add("rv %d", rv);
			finish_line();
		} else {
			printf("bad-op\n");
		}
	}
	lib_fini(false);
	return (0);
}
