// event buffer shared by the mock transport and the op interpreters: everything
// that happens while one harness operation runs (and the library quiesces) is
// appended here and printed as ONE output line "ev1 ; ev2 ; ..." (order within
// the line is canonicalised by the Python side).
#ifndef SIMEV_H
#define SIMEV_H
#include <stddef.h>
#include <stdint.h>
void ev_add(const char *fmt, ...);
void ev_add_msg(const char *prefix, const void *hdr, size_t hlen, const void *body, size_t blen);
void ev_flush(void); // prints the line (or "-" when empty) and clears
void ev_clear(void);
int  ev_count(void);

// simulated platform (simplat.c)
void     sim_seed(uint64_t);
void     sim_seed_user(uint64_t);
void     sim_quiesce(void);
void     sim_advance(int ms);
void     sim_advance_noq(int ms);
void     sim_arm_delay(int offset, int len);
void     sim_stats(unsigned long *steps, unsigned long *switches, int *nthr);
void     sim_jumps(unsigned long *n, unsigned long *ms);
void     sim_jump_slack(int ms);
long long sim_now_ms(void);
void     sim_reset_mutex_table(void);

// mock transport (mocktran.c)
void mock_register(void);
void mock_reset(void);
int  mock_conn_done(int ep, uint16_t peer, int err); // returns pipe index or <0
int  mock_recv_done(int pipe, const void *hdr_unused, const void *data, size_t len, int err);
int  mock_send_done(int pipe, int err);
int  mock_pipe_lose(int pipe); // transport-side loss: nni_pipe_close
int  mock_neps(void);
void mock_ep_events(int on);
uint32_t mock_pipe_id(int pipe);
#endif
