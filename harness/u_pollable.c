// UNIT harness for src/core/pollable.c (C15, poll-descriptor half): deterministic replay of thread
// schedules on the REAL code.
//
// The real pollable.c is #included below with every call it makes into the platform layer renamed
// to a hook: the four atomics it uses (nni_atomic_swap_bool, nni_atomic_get_bool, nni_atomic_get64,
// nni_atomic_cas64 - these are extern functions in posix_atomic.c, all seq_cst) and the four pipe
// calls (nni_plat_pipe_open/raise/clear/close).  A hook parks the calling thread on a semaphore
// (baton) BEFORE performing the real call, so the schedule decides the order of all shared-memory
// accesses: one `step <t>` = thread t performs the call it is parked at, then runs (thread-local
// code only) up to its next hook.  That is exactly one step of lean/NngModel/Model/Pollable.lean.
// The pipe is the real kernel pipe from the real posix_pipe.c; observations use poll(2)/FIONREAD.
//
// line protocol (one observation line out per line in):
//   init <fixed> <n> <raised0> <prog1|-> <prog2|->   n getfd threads, mutators m (prog1), n (prog2);
//                                                     prog = word over r (raise), c (clear);
//                                                     <fixed> is for the Lean model only (ignored)
//   step <m|n|k> [fail]                               `fail`: if the step is nni_plat_pipe_open it fails
//   reset                                             let every thread finish (free running), join,
//                                                     nni_pollable_fini, check that no pipe is left open
// observation: R=<flag> fd=<pipe id|-> rd=<POLLIN> b=<FIONREAD> open=<#open pipes> q=<quiescent>
//              res=<per getfd thread: . pending, e error, pipe id> bad=<io on closed fd> next=<call each thread is parked at>
#include "core/nng_impl.h"

#include <poll.h>
#include <pthread.h>
#include <semaphore.h>
#include <sys/ioctl.h>
#include <unistd.h>

#include "common.h"

#define MAXG 8
#define MAXT (MAXG + 2)
#define MAXPIPES 64
#define MAXPROG 64

// ---- baton ----
static sem_t        go[MAXT], ack[MAXT];
static pthread_t    thr[MAXT];
static int          nthr;
static volatile int free_run;
static const char  *next_call[MAXT];
static int          finished[MAXT];
static int          inop[MAXT];
static int          fail_open;
static __thread int tl_tid = -1;

static void
hook(const char *name)
{
	int t = tl_tid;
	if (t < 0 || free_run) {
		return;
	}
	next_call[t] = name;
	sem_post(&ack[t]);
	sem_wait(&go[t]);
	inop[t] = 1;
}

// ---- pipe registry (pipe ids in order of creation) ----
static struct {
	int wfd, rfd, open;
} pipes[MAXPIPES];
static int             npipes;
static int             bad;
static pthread_mutex_t reg_mx = PTHREAD_MUTEX_INITIALIZER;

static int
find_w(int wfd)
{
	for (int i = 0; i < npipes; i++) {
		if (pipes[i].open && pipes[i].wfd == wfd) {
			return (i);
		}
	}
	return (-1);
}

static int
find_r(int rfd)
{
	for (int i = 0; i < npipes; i++) {
		if (pipes[i].open && pipes[i].rfd == rfd) {
			return (i);
		}
	}
	return (-1);
}

static int
hk_pipe_open(int *wfd, int *rfd)
{
	int rv;
	hook("open");
	if (fail_open && !free_run) {
		fail_open = 0;
		return (NNG_ENOMEM);
	}
	if ((rv = nni_plat_pipe_open(wfd, rfd)) != 0) {
		return (rv);
	}
	pthread_mutex_lock(&reg_mx);
	if (npipes >= MAXPIPES) {
		fflush(stdout);
		fprintf(stderr, "u_pollable: too many pipes\n");
		abort();
	}
	pipes[npipes].wfd  = *wfd;
	pipes[npipes].rfd  = *rfd;
	pipes[npipes].open = 1;
	npipes++;
	pthread_mutex_unlock(&reg_mx);
	return (0);
}

static void
hk_pipe_raise(int wfd)
{
	int k;
	hook("raise");
	pthread_mutex_lock(&reg_mx);
	k = find_w(wfd);
	pthread_mutex_unlock(&reg_mx);
	if (k < 0) {
		bad = 1; // write to a descriptor that is not an open notification pipe
		return;
	}
	nni_plat_pipe_raise(wfd);
}

static void
hk_pipe_clear(int rfd)
{
	int k;
	hook("clear");
	pthread_mutex_lock(&reg_mx);
	k = find_r(rfd);
	pthread_mutex_unlock(&reg_mx);
	if (k < 0) {
		bad = 1;
		return;
	}
	nni_plat_pipe_clear(rfd);
}

static void
hk_pipe_close(int a, int b)
{
	int k;
	hook("close");
	pthread_mutex_lock(&reg_mx);
	// nni_pollable_fini passes (rfd, wfd), getfd passes (wfd, rfd): accept either order
	k = find_w(a);
	if (k < 0 || pipes[k].rfd != b) {
		k = find_w(b);
		if (k >= 0 && pipes[k].rfd != a) {
			k = -1;
		}
	}
	if (k >= 0) {
		pipes[k].open = 0;
	}
	pthread_mutex_unlock(&reg_mx);
	if (k < 0) {
		bad = 1;
		return;
	}
	nni_plat_pipe_close(a, b);
}

static bool
hk_swap_bool(nni_atomic_bool *v, bool b)
{
	hook("swap");
	return (nni_atomic_swap_bool(v, b));
}

static bool
hk_get_bool(nni_atomic_bool *v)
{
	hook("getb");
	return (nni_atomic_get_bool(v));
}

static uint64_t
hk_get64(nni_atomic_u64 *v)
{
	hook("get64");
	return (nni_atomic_get64(v));
}

static bool
hk_cas64(nni_atomic_u64 *v, uint64_t c, uint64_t n)
{
	hook("cas");
	return (nni_atomic_cas64(v, c, n));
}

// ---- the real code, with its platform calls routed through the hooks ----
#define nni_pollable_init ut_pollable_init
#define nni_pollable_fini ut_pollable_fini
#define nni_pollable_raise ut_pollable_raise
#define nni_pollable_clear ut_pollable_clear
#define nni_pollable_getfd ut_pollable_getfd
#define nni_plat_pipe_open hk_pipe_open
#define nni_plat_pipe_raise hk_pipe_raise
#define nni_plat_pipe_clear hk_pipe_clear
#define nni_plat_pipe_close hk_pipe_close
#define nni_atomic_swap_bool hk_swap_bool
#define nni_atomic_get_bool hk_get_bool
#define nni_atomic_get64 hk_get64
#define nni_atomic_cas64 hk_cas64
#include "core/pollable.c"
#undef nni_plat_pipe_open
#undef nni_plat_pipe_raise
#undef nni_plat_pipe_clear
#undef nni_plat_pipe_close
#undef nni_atomic_swap_bool
#undef nni_atomic_get_bool
#undef nni_atomic_get64
#undef nni_atomic_cas64

// ---- modelled threads ----
static nni_pollable P;
static char         prog[2][MAXPROG + 1];
static int          ng;
static int          gres[MAXG]; // -2 pending, -1 error, else pipe id
static int          active;

static void
thread_end(int t)
{
	inop[t]      = 0;
	finished[t]  = 1;
	next_call[t] = "end";
	if (!free_run) {
		sem_post(&ack[t]);
	}
}

static void *
mut_main(void *arg)
{
	int t  = (int) (intptr_t) arg;
	tl_tid = t;
	for (const char *p = prog[t]; *p; p++) {
		inop[t] = 0;
		if (*p == 'r') {
			ut_pollable_raise(&P);
		} else {
			ut_pollable_clear(&P);
		}
	}
	thread_end(t);
	return (NULL);
}

static void *
get_main(void *arg)
{
	int t   = (int) (intptr_t) arg;
	int fd  = -1;
	int rv;
	tl_tid  = t;
	inop[t] = 0;
	rv      = ut_pollable_getfd(&P, &fd);
	if (rv != 0) {
		gres[t - 2] = -1;
	} else {
		int k;
		pthread_mutex_lock(&reg_mx);
		k = find_r(fd);
		pthread_mutex_unlock(&reg_mx);
		// a descriptor that is not the read side of an open pipe: report an impossible id
		gres[t - 2] = k >= 0 ? k : 99;
	}
	thread_end(t);
	return (NULL);
}

static void
observe(void)
{
	uint64_t fds = nni_atomic_get64(&P.p_fds);
	int      k   = -1, rd = 0, nb = 0, nopen = 0, q = 1;
	if (fds != (uint64_t) -1) {
		k = find_r(RFD(fds));
		if (k < 0) {
			k = 98; // published descriptor is not an open pipe
		} else {
			struct pollfd pf = { .fd = pipes[k].rfd, .events = POLLIN };
			rd               = poll(&pf, 1, 0) == 1 && (pf.revents & POLLIN) ? 1 : 0;
			(void) ioctl(pipes[k].rfd, FIONREAD, &nb);
		}
	}
	for (int i = 0; i < npipes; i++) {
		nopen += pipes[i].open;
	}
	for (int t = 0; t < nthr; t++) {
		if (inop[t]) {
			q = 0;
		}
	}
	printf("R=%d fd=", nni_atomic_get_bool(&P.p_raised) ? 1 : 0);
	if (k < 0) {
		printf("-");
	} else {
		printf("%d", k);
	}
	printf(" rd=%d b=%d open=%d q=%d res=", rd, nb, nopen, q);
	if (ng == 0) {
		printf("none");
	}
	for (int i = 0; i < ng; i++) {
		if (gres[i] == -2) {
			printf("%s.", i ? "," : "");
		} else if (gres[i] == -1) {
			printf("%se", i ? "," : "");
		} else {
			printf("%s%d", i ? "," : "", gres[i]);
		}
	}
	printf(" bad=%d next=", bad);
	for (int t = 0; t < nthr; t++) {
		printf("%s%s", t ? "," : "", next_call[t]);
	}
	printf("\n");
}

static void
teardown(void)
{
	if (!active) {
		return;
	}
	free_run = 1;
	for (int t = 0; t < nthr; t++) {
		if (!finished[t]) {
			sem_post(&go[t]);
		}
	}
	for (int t = 0; t < nthr; t++) {
		pthread_join(thr[t], NULL);
		sem_destroy(&go[t]);
		sem_destroy(&ack[t]);
	}
	ut_pollable_fini(&P);
	for (int i = 0; i < npipes; i++) {
		if (pipes[i].open) {
			fflush(stdout);
			fprintf(stderr, "u_pollable: LEAK pipe %d still open after nni_pollable_fini\n", i);
			abort();
		}
	}
	active = 0;
}

static void
do_init(void)
{
	teardown();
	free_run  = 1; // no thread exists yet: hooks pass
	npipes    = 0;
	bad       = 0;
	fail_open = 0;
	ng        = atoi(vw[2]);
	if (ng > MAXG) {
		ng = MAXG;
	}
	for (int m = 0; m < 2; m++) {
		const char *w = vw[4 + m];
		prog[m][0]    = 0;
		if (strcmp(w, "-") != 0) {
			strncpy(prog[m], w, MAXPROG);
			prog[m][MAXPROG] = 0;
		}
	}
	ut_pollable_init(&P);
	if (atoi(vw[3])) {
		ut_pollable_raise(&P); // no descriptor yet: only the flag is set
	}
	nthr     = ng + 2;
	free_run = 0;
	for (int t = 0; t < nthr; t++) {
		sem_init(&go[t], 0, 0);
		sem_init(&ack[t], 0, 0);
		finished[t]  = 0;
		inop[t]      = 0;
		next_call[t] = "?";
		if (t >= 2) {
			gres[t - 2] = -2;
		}
		pthread_create(&thr[t], NULL, t < 2 ? mut_main : get_main, (void *) (intptr_t) t);
		sem_wait(&ack[t]); // parked at its first hook (or finished)
	}
	active = 1;
	observe();
}

static void
do_step(void)
{
	int t;
	if (!active) {
		printf("bad-op\n");
		return;
	}
	if (strcmp(vw[1], "m") == 0) {
		t = 0;
	} else if (strcmp(vw[1], "n") == 0) {
		t = 1;
	} else {
		t = atoi(vw[1]) + 2;
	}
	if (t >= 0 && t < nthr && !finished[t]) {
		fail_open = vn > 2 && strcmp(vw[2], "fail") == 0;
		sem_post(&go[t]);
		sem_wait(&ack[t]);
		fail_open = 0;
	}
	observe();
}

int
main(void)
{
	setvbuf(stdout, NULL, _IOFBF, 1 << 16);
	while (next_line()) {
		if (vn == 0) {
			continue;
		}
		if (strcmp(vw[0], "reset") == 0) {
			teardown();
			printf("reset\n");
		} else if (strcmp(vw[0], "init") == 0 && vn >= 6) {
			do_init();
		} else if (strcmp(vw[0], "step") == 0 && vn >= 2) {
			do_step();
		} else {
			printf("bad-op\n");
		}
	}
	teardown();
	fflush(stdout);
	return (0);
}
