// REAL probe for the timer clause of C02 with MANY aios (Props/C02Expire.lean): more than one batch
// (NNI_EXPIRE_BATCH) of operations whose deadlines fall into the same pass of ONE expire thread.
//   r_expire <n> <ms> <kind>      kind: sleep | recv | mixed | twodl
// n aios are started back to back: nng_sleep_aio(ms) (result 0) and/or a receive with timeout ms on a
// socket without peers (result NNG_ETIMEDOUT); `twodl` gives every other one the deadline ms+40.
// Output: one line  "expire n=<n> done=<d> dup=<k> wrong=<k> maxlate=<ms> waited=<ms>".
#include <nng/nng.h>
#include <stdio.h>
#include <stdlib.h>
#include <string.h>

#define MAXN 2000
static nng_aio *aios[MAXN];
static int      want[MAXN];
static int      ncb[MAXN];
static int      res[MAXN];
static nng_time due[MAXN];
static nng_time fin[MAXN];
static nng_mtx *mtx;
static int      ndone;

static void
cb(void *arg)
{
	int i = (int) (intptr_t) arg;
	nng_mtx_lock(mtx);
	ncb[i]++;
	res[i] = nng_aio_result(aios[i]);
	fin[i] = nng_clock();
	if (ncb[i] == 1) {
		ndone++;
	}
	nng_mtx_unlock(mtx);
}

int
main(int argc, char **argv)
{
	if (argc != 4) {
		return (2);
	}
	int             n    = atoi(argv[1]);
	int             ms   = atoi(argv[2]);
	const char     *kind = argv[3];
	nng_init_params p;
	nng_socket      s;
	nng_time        t0, waited;
	int             done, dup = 0, wrong = 0;
	long            maxlate = 0;

	if (n < 1 || n > MAXN) {
		return (2);
	}
	memset(&p, 0, sizeof(p));
	p.num_expire_threads = 1;
	p.max_expire_threads = 1;
	if (nng_init(&p) != 0 || nng_mtx_alloc(&mtx) != 0 || nng_pull0_open(&s) != 0) {
		printf("expire setup-failed\n");
		return (0);
	}
	for (int i = 0; i < n; i++) {
		if (nng_aio_alloc(&aios[i], cb, (void *) (intptr_t) i) != 0) {
			printf("expire setup-failed\n");
			return (0);
		}
	}
	t0 = nng_clock();
	for (int i = 0; i < n; i++) {
		int d     = ms + ((strcmp(kind, "twodl") == 0 && (i & 1)) ? 40 : 0);
		int sleep = strcmp(kind, "sleep") == 0 || strcmp(kind, "twodl") == 0 || (strcmp(kind, "mixed") == 0 && (i % 3) == 0);
		due[i]    = nng_clock() + (nng_time) d;
		if (sleep) {
			want[i] = 0;
			nng_sleep_aio(d, aios[i]);
		} else {
			want[i] = NNG_ETIMEDOUT;
			nng_aio_set_timeout(aios[i], d);
			nng_socket_recv(s, aios[i]);
		}
	}
	// wait for all of them, at most 3 s beyond the last deadline
	for (;;) {
		nng_mtx_lock(mtx);
		done = ndone;
		nng_mtx_unlock(mtx);
		waited = nng_clock() - t0;
		if (done == n || waited > (nng_time) ms + 40 + 3000) {
			break;
		}
		nng_msleep(5);
	}
	nng_msleep(50); // a second callback for the same aio would show up now
	nng_mtx_lock(mtx);
	for (int i = 0; i < n; i++) {
		if (ncb[i] > 1) {
			dup++;
		}
		if (ncb[i] >= 1) {
			if (res[i] != want[i]) {
				wrong++;
			}
			if ((long) (fin[i] - due[i]) > maxlate) {
				maxlate = (long) (fin[i] - due[i]);
			}
			if (fin[i] + 2 < due[i]) {
				wrong++; // completed before its time
			}
		}
	}
	done = ndone;
	nng_mtx_unlock(mtx);
	printf("expire n=%d done=%d dup=%d wrong=%d maxlate=%ld waited=%ld\n", n, done, dup, wrong, maxlate, (long) waited);
	fflush(stdout);
	if (done == n) { // otherwise aios are stuck: leave without tearing down (nng_fini would wait for them)
		for (int i = 0; i < n; i++) {
			nng_aio_free(aios[i]);
		}
		nng_socket_close(s);
		nng_mtx_free(mtx);
		nng_fini();
	}
	return (0);
}
