// REAL probe for C10 ("close always terminates, completes everything"): dialers PARKED on an inproc listener
// (its accept loop is held inside an ADD_PRE pipe callback, so it has no accept outstanding) when the listener
// or its socket is closed.  Every parked synchronous dial must return, and the close must return.
//   r_park <n parked dialers> <listener|socket>
// Output: "park n=<n> how=<..> parked=<k> close_done=<0|1> done=<k> results=<rv,rv,..>"
#include <nng/nng.h>
#include <pthread.h>
#include <stdio.h>
#include <stdlib.h>
#include <string.h>
#include <unistd.h>

#define URL "inproc://verif-c10-park"
#define MAXN 8
static pthread_mutex_t mtx = PTHREAD_MUTEX_INITIALIZER;
static int             cb_entered, cb_release, close_done;
static int             dial_done[MAXN], dial_rv[MAXN];
static nng_socket      dsock[MAXN];
static nng_socket      srv;
static nng_listener    lst;
static int             by_socket;

static void
pipe_cb(nng_pipe p, nng_pipe_ev ev, void *arg)
{
	(void) p;
	(void) arg;
	if (ev != NNG_PIPE_EV_ADD_PRE) {
		return;
	}
	pthread_mutex_lock(&mtx);
	cb_entered = 1;
	pthread_mutex_unlock(&mtx);
	for (;;) {
		pthread_mutex_lock(&mtx);
		int r = cb_release;
		pthread_mutex_unlock(&mtx);
		if (r) {
			return;
		}
		usleep(2000);
	}
}

static void *
dial_thread(void *arg)
{
	int i  = (int) (intptr_t) arg;
	int rv = nng_dial(dsock[i], URL, NULL, 0); // synchronous: parks on the listener
	pthread_mutex_lock(&mtx);
	dial_rv[i]   = rv;
	dial_done[i] = 1;
	pthread_mutex_unlock(&mtx);
	return (NULL);
}

static void *
close_thread(void *arg)
{
	(void) arg;
	if (by_socket) {
		nng_socket_close(srv);
	} else {
		nng_listener_close(lst);
	}
	pthread_mutex_lock(&mtx);
	close_done = 1;
	pthread_mutex_unlock(&mtx);
	return (NULL);
}

static int
flag(int *f)
{
	pthread_mutex_lock(&mtx);
	int v = *f;
	pthread_mutex_unlock(&mtx);
	return (v);
}

static int
wait_flag(int *f, int ms)
{
	for (int i = 0; i < ms / 5; i++) {
		if (flag(f)) {
			return (1);
		}
		usleep(5000);
	}
	return (flag(f));
}

int
main(int argc, char **argv)
{
	if (argc != 3) {
		return (2);
	}
	int        n = atoi(argv[1]);
	nng_socket first;
	pthread_t  t[MAXN + 1];
	int        parked = 0, done = 0;
	by_socket = strcmp(argv[2], "socket") == 0;
	if (n < 1 || n > MAXN || nng_init(NULL) != 0 || nng_pair0_open(&srv) != 0 ||
	    nng_pipe_notify(srv, NNG_PIPE_EV_ADD_PRE, pipe_cb, NULL) != 0 || nng_listen(srv, URL, &lst, 0) != 0 ||
	    nng_pair0_open(&first) != 0 || nng_dial(first, URL, NULL, NNG_FLAG_NONBLOCK) != 0 || !wait_flag(&cb_entered, 5000)) {
		printf("park setup-failed\n");
		return (0);
	}
	for (int i = 0; i < n; i++) {
		if (nng_pair0_open(&dsock[i]) != 0) {
			printf("park setup-failed\n");
			return (0);
		}
		pthread_create(&t[i], NULL, dial_thread, (void *) (intptr_t) i);
	}
	usleep(300000);
	for (int i = 0; i < n; i++) {
		parked += !flag(&dial_done[i]);
	}
	pthread_create(&t[n], NULL, close_thread, NULL);
	usleep(200000);
	pthread_mutex_lock(&mtx);
	cb_release = 1;
	pthread_mutex_unlock(&mtx);
	(void) wait_flag(&close_done, 5000);
	printf("park n=%d how=%s parked=%d close_done=%d", n, argv[2], parked, flag(&close_done));
	for (int i = 0; i < n; i++) {
		done += wait_flag(&dial_done[i], 3000);
	}
	printf(" done=%d results=", done);
	for (int i = 0; i < n; i++) {
		printf("%s%d", i ? "," : "", flag(&dial_done[i]) ? dial_rv[i] : -1);
	}
	printf("\n");
	fflush(stdout);
	_exit(0); // stuck threads (if any) must not keep the probe alive
}
