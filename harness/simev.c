#include "simev.h"

#include <pthread.h>
#include <stdarg.h>
#include <stdio.h>
#include <stdlib.h>
#include <string.h>

#define MAXEV 4096
static char           *evs[MAXEV];
static int             nev;
static pthread_mutex_t evm = PTHREAD_MUTEX_INITIALIZER;

static void
push(char *s)
{
	pthread_mutex_lock(&evm);
	if (nev < MAXEV) {
		evs[nev++] = s;
	} else {
		free(s);
	}
	pthread_mutex_unlock(&evm);
}

void
ev_add(const char *fmt, ...)
{
	char    buf[512];
	va_list ap;
	va_start(ap, fmt);
	vsnprintf(buf, sizeof(buf), fmt, ap);
	va_end(ap);
	push(strdup(buf));
}

static char *
hexinto(char *p, const uint8_t *b, size_t n)
{
	static const char *d = "0123456789abcdef";
	if (n == 0) {
		*p++ = '-';
	}
	for (size_t i = 0; i < n; i++) {
		*p++ = d[b[i] >> 4];
		*p++ = d[b[i] & 15];
	}
	*p = 0;
	return (p);
}

void
ev_add_msg(const char *prefix, const void *hdr, size_t hlen, const void *body, size_t blen)
{
	size_t need = strlen(prefix) + 2 * hlen + 2 * blen + 8;
	char  *s    = malloc(need);
	char  *p    = s + sprintf(s, "%s ", prefix);
	p           = hexinto(p, hdr, hlen);
	*p++        = ' ';
	p           = hexinto(p, body, blen);
	push(s);
}

void
ev_flush(void)
{
	pthread_mutex_lock(&evm);
	if (nev == 0) {
		fputs("-", stdout);
	}
	for (int i = 0; i < nev; i++) {
		if (i) {
			fputs(" ; ", stdout);
		}
		fputs(evs[i], stdout);
		free(evs[i]);
	}
	nev = 0;
	pthread_mutex_unlock(&evm);
	fputc('\n', stdout);
}

void
ev_clear(void)
{
	pthread_mutex_lock(&evm);
	for (int i = 0; i < nev; i++) {
		free(evs[i]);
	}
	nev = 0;
	pthread_mutex_unlock(&evm);
}

int
ev_count(void)
{
	return (nev);
}
