// REAL executor for C11 (hostile or broken peers).
//
// One nng socket (listener) per process run section; one well-behaved CONTROL peer; hostile sessions
// against it.  The harness is every peer: raw SP over tcp / ipc / socket:// (rawpeer.c), raw
// HTTP+WebSocket bytes over tcp for ws://, raw datagrams for udp://.  The harness only observes; the
// verdict is taken by vlib/props/c11.py with the Lean model and judge.
//
// Input lines -> exactly one output line each:
//   open <tcp|ipc|sfd|ws|udp> <proto> <raw 0|1> <rcvmax|def> <ttl> <subprefix-hex|->
//        proto: pair0 pair1 rep req sub pull bus surveyor respondent
//        -> "open ok ctlpipe=<id>"  |  "open FAIL:<why>"
//   sess <id> <h|x|i> <expect_add 0|1> <chunk-hex>...
//        a new connection writes the chunks (one write each), then
//          h: half-closes and waits for nng to close its side
//          x: (expect_add: first waits for the pipe-added event) resets the connection
//          i: stays open while a control exchange runs, then as h
//        -> "sess <id> wr=<written>/<total> rx=<hex of the first bytes nng sent|-> eof=<0|1> add=<n> rem=<n>
//            pipes=<id,..|-> ctl=<ok|FAIL:why> n=<k> [D <pipe> <hdr> <body>]..."   (all non-control deliveries)
//   dgram <id> <nsrc> <src>:<replies>.<adds>.<reaps>.<barrier>.<deliveries>:<datagram-hex>...   (udp only, see cmd_dgram)
//        -> "dgram <id> rx=<what nng sent to each sender: c = CACK, d<reason> = DISC> wt=<timed-out waits> ctl=..
//            ports=<sender ports> pipes=<id>@<peer port>,.. n=<k> [D ...]"
//   dflood <id> <n> <datagram-hex>...      (udp only) n senders, no waiting in between
//   dhold <id> <n> <datagram-hex>          (udp only) n fresh senders each send the datagram, read nng's answer and STAY (their
//        associations are kept up: nothing says DISC)   -> "dhold <id> opened=<k> cack=<a> nobuf=<b> other=<c> add=<n>"
//   dfree <id>                             every held sender says DISC and goes; waits for the removal of their pipes
//        -> "dfree <id> n=<k> rem=<n>"
//   flood <id> <n> <bytes-hex|->   n connections each writing the bytes, all held open during a control
//        exchange, then closed            -> "flood <id> opened=<k> ctl=<..> add=<n> rem=<n> n=<k> [D ...]"
//   ctl                            one control exchange            -> "ctl ok" | "ctl FAIL:<why>"
//   ctl_burst <n> [<fill>]         n control messages (fill: extra payload bytes) back to back, all must arrive (nothing is repeated)
//   ctl_drop / ctl_connect         PAIR: the control peer disconnects / reconnects
//   close                          close the socket; everything must be torn down
//        -> "close ok add=<n> rem=<n> ctl_eof=<0|1> n=<k> [D ...]"
//
// Bodies longer than 128 bytes are printed as L<len>:<fnv64 hex>.
// Every wait is bounded (condition variable with deadline, poll with timeout); a SIGALRM watchdog
// (re-armed per command) turns a hang into exit code 86 with a line "WATCHDOG <command>".
#include <nng/nng.h>

#include "rawpeer.h"

#include <arpa/inet.h>
#include <errno.h>
#include <inttypes.h>
#include <netinet/in.h>
#include <poll.h>
#include <pthread.h>
#include <signal.h>
#include <stdio.h>
#include <sys/resource.h>
#include <sys/socket.h>
#include <sys/stat.h>
#include <time.h>
#include <unistd.h>

static int TMO = 10000; // every bounded wait (ms); env C11_TMO
#define HEXLIMIT 128
enum { T_TCP, T_IPC, T_SFD, T_WS, T_UDP };
enum { P_PAIR0, P_PAIR1, P_REP, P_REQ, P_SUB, P_PULL, P_BUS, P_SURVEYOR, P_RESPONDENT };

// ------------------------------------------------------------------ state
static nng_socket      sock;
static nng_listener    lst;
static bool            is_open;
static int             tran, proto;
static bool            raw;
static uint16_t        peer_proto; // what a well-behaved peer announces
static char            url[200];   // what raw peers connect to
static char            tmpdir[128];
static uint8_t         subpre[64];
static size_t          subprelen;
static nng_aio        *raio, *saio;
static bool            rx_armed;   // the always-armed receiver is in use (not for cooked req/surveyor)
static char            curcmd[64];

static pthread_mutex_t mtx = PTHREAD_MUTEX_INITIALIZER;
static pthread_cond_t  cv;

typedef struct {
	uint32_t pipe;
	char    *hdr;
	char    *body;
	uint8_t  tag[8]; // last 8 body bytes (control matching)
	size_t   blen;
} delivery;
static delivery *dlog;
static size_t    ndlog, capdlog;
static size_t    nhostile; // deliveries that did not come from the control pipe
static uint32_t *added; // ids in ADD_POST order
static uint16_t *aport; // udp: source port of the peer of added[i]
static uint8_t  *gone;  // added[i] has had its REM_POST
static size_t    nadded, capadded, nremoved, nrem_unadded; // nrem_unadded: REM_POST for pipes that never had ADD_POST
static bool      rx_stopped;

// control peer
static int      ctl_fd = -1;
static uint32_t ctl_pipe;
static uint64_t ctl_seq;
static int      udp_ctl_fd = -1;
static int      udp_retries; // control exchanges over udp that had to be repeated
static size_t   stuck_pipes; // pipes that did not go away within TMO after their connection ended (reported once, then part of the baseline)
static struct sockaddr_in udp_addr; // nng's udp listener

static int64_t
now_ms(void)
{
	struct timespec ts;
	clock_gettime(CLOCK_MONOTONIC, &ts);
	return ((int64_t) ts.tv_sec * 1000 + ts.tv_nsec / 1000000);
}

static void
deadline(struct timespec *ts, int ms)
{
	clock_gettime(CLOCK_MONOTONIC, ts);
	ts->tv_sec += ms / 1000;
	ts->tv_nsec += (long) (ms % 1000) * 1000000L;
	if (ts->tv_nsec >= 1000000000L) {
		ts->tv_sec++;
		ts->tv_nsec -= 1000000000L;
	}
}

static char *
hexdup(const uint8_t *b, size_t n, bool limit)
{
	char *s;
	if (n == 0) {
		return (strdup("-"));
	}
	if (limit && n > HEXLIMIT) {
		s = malloc(48);
		snprintf(s, 48, "L%zu:%016" PRIx64, n, rp_fnv64(b, n));
		return (s);
	}
	s = malloc(2 * n + 1);
	for (size_t i = 0; i < n; i++) {
		snprintf(s + 2 * i, 3, "%02x", b[i]);
	}
	return (s);
}

static void
on_alarm(int sig)
{
	char buf[128];
	int  n = snprintf(buf, sizeof(buf), "WATCHDOG %s\n", curcmd);
	(void) sig;
	(void) !write(1, buf, (size_t) n);
	_exit(86);
}

// ------------------------------------------------------------------ nng side ("the application")
static void
pipe_cb(nng_pipe p, nng_pipe_ev ev, void *arg)
{
	(void) arg;
	pthread_mutex_lock(&mtx);
	if (ev == NNG_PIPE_EV_ADD_POST) {
		if (nadded == capadded) {
			capadded = capadded ? capadded * 2 : 256;
			added    = realloc(added, capadded * sizeof(*added));
			aport    = realloc(aport, capadded * sizeof(*aport));
			gone     = realloc(gone, capadded);
		}
		gone[nadded]  = 0;
		aport[nadded] = 0;
		if (tran == T_UDP) {
			nng_sockaddr sa;
			if (nng_pipe_peer_addr(p, &sa) == 0 && sa.s_family == NNG_AF_INET) {
				aport[nadded] = ntohs(sa.s_in.sa_port);
			}
		}
		added[nadded++] = (uint32_t) nng_pipe_id(p);
	} else if (ev == NNG_PIPE_EV_REM_POST) {
		uint32_t id = (uint32_t) nng_pipe_id(p);
		size_t   i  = nadded;
		while (i > 0 && !(added[i - 1] == id && !gone[i - 1])) {
			i--;
		}
		if (i > 0) {
			gone[i - 1] = 1;
			nremoved++;
		} else {
			nrem_unadded++;
		}
	}
	pthread_cond_broadcast(&cv);
	pthread_mutex_unlock(&mtx);
}

static void
log_msg(nng_msg *m)
{
	delivery d;
	size_t   bl = nng_msg_len(m);
	d.pipe      = (uint32_t) nng_pipe_id(nng_msg_get_pipe(m));
	d.hdr       = hexdup(nng_msg_header(m), nng_msg_header_len(m), false);
	d.body      = hexdup(nng_msg_body(m), bl, true);
	d.blen      = bl;
	memset(d.tag, 0, 8);
	if (bl >= 8) {
		memcpy(d.tag, (uint8_t *) nng_msg_body(m) + bl - 8, 8);
	}
	pthread_mutex_lock(&mtx);
	if (ndlog == capdlog) {
		capdlog = capdlog ? capdlog * 2 : 256;
		dlog    = realloc(dlog, capdlog * sizeof(*dlog));
	}
	dlog[ndlog++] = d;
	if (d.pipe != ctl_pipe) {
		nhostile++;
	}
	pthread_cond_broadcast(&cv);
	pthread_mutex_unlock(&mtx);
}

static bool
needs_reply(void)
{
	return (proto == P_REP || proto == P_RESPONDENT);
}

static void
recv_cb(void *arg)
{
	int      rv = nng_aio_result(raio);
	nng_msg *m;
	(void) arg;
	if (rv != 0) {
		if (rv == NNG_ETIMEDOUT) {
			nng_socket_recv(sock, raio);
			return;
		}
		pthread_mutex_lock(&mtx);
		rx_stopped = true;
		pthread_cond_broadcast(&cv);
		pthread_mutex_unlock(&mtx);
		return;
	}
	m = nng_aio_get_msg(raio);
	nng_aio_set_msg(raio, NULL);
	log_msg(m);
	if (needs_reply() && (uint32_t) nng_pipe_id(nng_msg_get_pipe(m)) == ctl_pipe) {
		// echo: cooked -> the body; raw -> header (pipe id + backtrace) and body as received
		nng_aio_set_msg(saio, m);
		nng_socket_send(sock, saio);
		return; // the receive is re-armed by send_cb
	}
	nng_msg_free(m);
	nng_socket_recv(sock, raio);
}

static void
send_cb(void *arg)
{
	(void) arg;
	if (nng_aio_result(saio) != 0) {
		nng_msg *m = nng_aio_get_msg(saio);
		if (m != NULL) {
			nng_msg_free(m);
		}
		nng_aio_set_msg(saio, NULL);
	}
	if (rx_armed) {
		nng_socket_recv(sock, raio);
	}
}

static int
open_sock(void)
{
	switch (proto) {
	case P_PAIR0:
		peer_proto = 0x10;
		return (raw ? nng_pair0_open_raw(&sock) : nng_pair0_open(&sock));
	case P_PAIR1:
		peer_proto = 0x11;
		return (raw ? nng_pair1_open_raw(&sock) : nng_pair1_open(&sock));
	case P_REP:
		peer_proto = 0x30;
		return (raw ? nng_rep0_open_raw(&sock) : nng_rep0_open(&sock));
	case P_REQ:
		peer_proto = 0x31;
		return (raw ? nng_req0_open_raw(&sock) : nng_req0_open(&sock));
	case P_SUB:
		peer_proto = 0x20;
		return (raw ? nng_sub0_open_raw(&sock) : nng_sub0_open(&sock));
	case P_PULL:
		peer_proto = 0x50;
		return (raw ? nng_pull0_open_raw(&sock) : nng_pull0_open(&sock));
	case P_BUS:
		peer_proto = 0x70;
		return (raw ? nng_bus0_open_raw(&sock) : nng_bus0_open(&sock));
	case P_SURVEYOR:
		peer_proto = 0x63;
		return (raw ? nng_surveyor0_open_raw(&sock) : nng_surveyor0_open(&sock));
	case P_RESPONDENT:
		peer_proto = 0x62;
		return (raw ? nng_respondent0_open_raw(&sock) : nng_respondent0_open(&sock));
	}
	return (NNG_ENOTSUP);
}

static int
parse_proto(const char *s)
{
	static const char *names[] = { "pair0", "pair1", "rep", "req", "sub", "pull", "bus", "surveyor", "respondent" };
	for (int i = 0; i < 9; i++) {
		if (strcmp(s, names[i]) == 0) {
			return (i);
		}
	}
	return (-1);
}

static int
parse_tran(const char *s)
{
	static const char *names[] = { "tcp", "ipc", "sfd", "ws", "udp" };
	for (int i = 0; i < 5; i++) {
		if (strcmp(s, names[i]) == 0) {
			return (i);
		}
	}
	return (-1);
}

static int
rp_kind_of(void)
{
	return (tran == T_IPC ? RP_IPC : RP_TCP);
}

// ------------------------------------------------------------------ waits on the logs
static bool
wait_added(size_t n, int ms)
{
	struct timespec ts;
	bool            ok;
	deadline(&ts, ms);
	pthread_mutex_lock(&mtx);
	while (nadded < n) {
		if (pthread_cond_timedwait(&cv, &mtx, &ts) != 0) {
			break;
		}
	}
	ok = nadded >= n;
	pthread_mutex_unlock(&mtx);
	return (ok);
}

// all pipes added so far except `keep` of them are removed
static bool
wait_balanced(size_t keep, int ms)
{
	struct timespec ts;
	bool            ok;
	deadline(&ts, ms);
	pthread_mutex_lock(&mtx);
	while (nadded - nremoved > keep) {
		if (pthread_cond_timedwait(&cv, &mtx, &ts) != 0) {
			break;
		}
	}
	ok = nadded - nremoved <= keep;
	pthread_mutex_unlock(&mtx);
	return (ok);
}

// REM_POST events seen (pipes that were added and pipes the socket refused alike) reach n
static bool
wait_reaped(size_t n, int ms)
{
	struct timespec ts;
	bool            ok;
	deadline(&ts, ms);
	pthread_mutex_lock(&mtx);
	while (nremoved + nrem_unadded < n) {
		if (pthread_cond_timedwait(&cv, &mtx, &ts) != 0) {
			break;
		}
	}
	ok = nremoved + nrem_unadded >= n;
	pthread_mutex_unlock(&mtx);
	return (ok);
}

// n messages from pipes other than the control pipe have reached the application
static bool
wait_deliveries(size_t n, int ms)
{
	struct timespec ts;
	bool            ok;
	deadline(&ts, ms);
	pthread_mutex_lock(&mtx);
	while (nhostile < n) {
		if (pthread_cond_timedwait(&cv, &mtx, &ts) != 0) {
			break;
		}
	}
	ok = nhostile >= n;
	pthread_mutex_unlock(&mtx);
	return (ok);
}

// a delivery from the control pipe at index >= from whose last 8 bytes are tag
static bool
wait_ctl_delivery(size_t from, const uint8_t tag[8], int ms)
{
	struct timespec ts;
	bool            ok = false;
	size_t          i  = from;
	deadline(&ts, ms);
	pthread_mutex_lock(&mtx);
	for (;;) {
		for (; i < ndlog; i++) {
			if (dlog[i].pipe == ctl_pipe && dlog[i].blen >= 8 && memcmp(dlog[i].tag, tag, 8) == 0) {
				ok = true;
				break;
			}
		}
		if (ok || pthread_cond_timedwait(&cv, &mtx, &ts) != 0) {
			break;
		}
	}
	pthread_mutex_unlock(&mtx);
	return (ok);
}

// ------------------------------------------------------------------ websocket bytes (client role)
static const char ws_proto_names[9][16] = { "pair", "pair1", "rep", "req", "sub", "pull", "bus", "surveyor",
	"respondent" }; // a client asks for the listening socket's own protocol name

static int
ws_upgrade(int fd)
{
	char    req[512];
	uint8_t resp[1024];
	size_t  got = 0;
	int     n   = snprintf(req, sizeof(req),
	          "GET / HTTP/1.1\r\nHost: 127.0.0.1\r\nUpgrade: websocket\r\nConnection: Upgrade\r\n"
	          "Sec-WebSocket-Key: dGhlIHNhbXBsZSBub25jZQ==\r\nSec-WebSocket-Version: 13\r\n"
	          "Sec-WebSocket-Protocol: %s.sp.nanomsg.org\r\n\r\n",
	          ws_proto_names[proto]);
	if (rp_write_all(fd, (uint8_t *) req, (size_t) n, TMO) != 0) {
		return (-1);
	}
	// read until the blank line
	while (got < sizeof(resp) - 1) {
		if (rp_read_exact(fd, resp + got, 1, 1, TMO) != 0) {
			return (-1);
		}
		got++;
		if (got >= 4 && memcmp(resp + got - 4, "\r\n\r\n", 4) == 0) {
			resp[got] = 0;
			return (strncmp((char *) resp, "HTTP/1.1 101", 12) == 0 ? 0 : -1);
		}
	}
	return (-1);
}

static uint8_t *
ws_frame(const uint8_t *payload, size_t len, size_t *flen)
{
	uint8_t *f = malloc(len + 14);
	size_t   o = 0;
	f[o++]     = 0x82; // FIN + binary
	if (len < 126) {
		f[o++] = (uint8_t) (0x80 | len);
	} else if (len < 65536) {
		f[o++] = 0x80 | 126;
		f[o++] = (uint8_t) (len >> 8);
		f[o++] = (uint8_t) len;
	} else {
		f[o++] = 0x80 | 127;
		for (int i = 7; i >= 0; i--) {
			f[o++] = (uint8_t) ((uint64_t) len >> (8 * i));
		}
	}
	f[o++] = 0x12;
	f[o++] = 0x34;
	f[o++] = 0x56;
	f[o++] = 0x78;
	for (size_t i = 0; i < len; i++) {
		static const uint8_t k[4] = { 0x12, 0x34, 0x56, 0x78 };
		f[o++]                    = payload[i] ^ k[i % 4];
	}
	*flen = o;
	return (f);
}

// read one unfragmented server frame (unmasked)
static int
ws_read_frame(int fd, uint8_t **payload, size_t *plen)
{
	uint8_t h[10];
	size_t  len;
	for (;;) {
		if (rp_read_exact(fd, h, 2, 0, TMO) != 0) {
			return (-1);
		}
		len = h[1] & 0x7f;
		if (len == 126) {
			if (rp_read_exact(fd, h + 2, 2, 0, TMO) != 0) {
				return (-1);
			}
			len = ((size_t) h[2] << 8) | h[3];
		} else if (len == 127) {
			if (rp_read_exact(fd, h + 2, 8, 0, TMO) != 0) {
				return (-1);
			}
			len = 0;
			for (int i = 0; i < 8; i++) {
				len = (len << 8) | h[2 + i];
			}
		}
		if (len > (1u << 20)) {
			return (-1);
		}
		*payload = malloc(len ? len : 1);
		if (len && rp_read_exact(fd, *payload, len, 0, TMO) != 0) {
			free(*payload);
			return (-1);
		}
		if ((h[0] & 0x0f) == 2 || (h[0] & 0x0f) == 1) {
			*plen = len;
			return (0);
		}
		free(*payload); // control frame: skip
		if ((h[0] & 0x0f) == 8) {
			return (-1);
		}
	}
}

// ------------------------------------------------------------------ udp bytes
static void
udp_hdr(uint8_t *d, uint8_t op, uint16_t type, uint16_t p0, uint16_t p1)
{
	d[0] = 1;
	d[1] = op;
	d[2] = (uint8_t) type;
	d[3] = (uint8_t) (type >> 8);
	d[4] = (uint8_t) p0;
	d[5] = (uint8_t) (p0 >> 8);
	d[6] = (uint8_t) p1;
	d[7] = (uint8_t) (p1 >> 8);
}

// does nng still hold an association (a pipe that was added and not removed) for this source port?  Senders that just
// vanished (dflood's every third one) leave theirs behind until it expires or the socket closes; the kernel may hand the
// same ephemeral port to a later sender, which nng would then treat as that old peer.
static bool
port_has_pipe(uint16_t port)
{
	bool found = false;
	pthread_mutex_lock(&mtx);
	for (size_t i = 0; i < nadded && !found; i++) {
		found = !gone[i] && aport[i] == port;
	}
	pthread_mutex_unlock(&mtx);
	return (found);
}

static int parked[64]; // sockets holding such ports, so that the kernel does not hand them out again; closed with the socket
static int nparked;

static int
udp_socket(void)
{
	for (;;) {
		int                fd = socket(AF_INET, SOCK_DGRAM, 0);
		struct sockaddr_in sa;
		socklen_t          sl = sizeof(sa);
		memset(&sa, 0, sizeof(sa));
		sa.sin_family      = AF_INET;
		sa.sin_addr.s_addr = htonl(INADDR_LOOPBACK);
		if (fd >= 0 && bind(fd, (struct sockaddr *) &sa, sizeof(sa)) != 0) {
			close(fd);
			return (-1);
		}
		if (fd < 0 || nparked >= 64 || getsockname(fd, (struct sockaddr *) &sa, &sl) != 0 || !port_has_pipe(ntohs(sa.sin_port))) {
			return (fd);
		}
		parked[nparked++] = fd;
	}
}

static ssize_t
udp_recv(int fd, uint8_t *buf, size_t cap, int ms)
{
	struct pollfd pfd = { .fd = fd, .events = POLLIN };
	if (poll(&pfd, 1, ms) <= 0) {
		return (-1);
	}
	return (recv(fd, buf, cap, 0));
}

// CREQ and wait for the CACK; returns 0
static int
udp_connect(int fd)
{
	uint8_t d[8], r[128];
	int64_t end = now_ms() + TMO;
	udp_hdr(d, 1, peer_proto, 65000, 5);
	while (now_ms() < end) {
		ssize_t n;
		if (sendto(fd, d, 8, 0, (struct sockaddr *) &udp_addr, sizeof(udp_addr)) != 8) {
			return (-1);
		}
		n = udp_recv(fd, r, sizeof(r), 300);
		if (n >= 8 && r[0] == 1 && r[1] == 2) {
			return (0);
		}
		if (n >= 8 && r[0] == 1 && r[1] == 3) {
			return (-1);
		}
	}
	return (-1);
}

// ------------------------------------------------------------------ the control peer
static int
peer_connect(void)
{
	if (tran == T_SFD) {
		int sp[2];
		if (rp_socketpair(sp) != 0) {
			return (-1);
		}
		if (nng_listener_set_int(lst, NNG_OPT_SOCKET_FD, sp[0]) != 0) {
			close(sp[0]);
			close(sp[1]);
			return (-1);
		}
		return (sp[1]);
	}
	return (rp_connect(url, TMO));
}

static const char *
ctl_connect(void)
{
	size_t   before;
	uint16_t peer;
	uint8_t  theirs[8];
	pthread_mutex_lock(&mtx);
	before = nadded;
	pthread_mutex_unlock(&mtx);
	if (tran == T_UDP) {
		if ((udp_ctl_fd = udp_socket()) < 0 || udp_connect(udp_ctl_fd) != 0) {
			return ("ctl-udp-connect");
		}
	} else {
		if ((ctl_fd = peer_connect()) < 0) {
			return ("ctl-connect");
		}
		if (tran == T_WS) {
			if (ws_upgrade(ctl_fd) != 0) {
				return ("ctl-ws-upgrade");
			}
		} else if (rp_handshake(ctl_fd, peer_proto, 0, &peer, theirs, TMO) != 0) {
			return ("ctl-handshake");
		}
	}
	if (!wait_added(before + 1, tran == T_UDP ? TMO : 1000)) {
		return ("ctl-pipe-not-added");
	}
	pthread_mutex_lock(&mtx);
	ctl_pipe = added[nadded - 1];
	pthread_mutex_unlock(&mtx);
	return (NULL);
}

static const char *ctl_exchange(void);
static bool        wait_balanced(size_t keep, int ms);
static int         ctl_tries;

// connect the control peer and prove it works; a PAIR socket may still be detaching the previous
// pipe when its removal was already announced, so a refused attempt is repeated (bounded)
static const char *
ctl_connect_retry(void)
{
	const char *r = NULL;
	ctl_tries     = 0;
	for (int i = 0; i < 20; i++) {
		ctl_tries++;
		r = ctl_connect();
		if (r == NULL) {
			r = ctl_exchange();
		}
		if (r == NULL) {
			return (NULL);
		}
		if (ctl_fd >= 0) {
			close(ctl_fd);
			ctl_fd = -1;
		}
		if (udp_ctl_fd >= 0) {
			close(udp_ctl_fd);
			udp_ctl_fd = -1;
		}
		ctl_pipe = 0;
		(void) wait_balanced(0, 1000);
	}
	return (r);
}

static int
ctl_send(const uint8_t *payload, size_t len)
{
	if (tran == T_UDP) {
		uint8_t d[8 + 8192];
		udp_hdr(d, 0, peer_proto, (uint16_t) len, 0);
		memcpy(d + 8, payload, len);
		return (sendto(udp_ctl_fd, d, 8 + len, 0, (struct sockaddr *) &udp_addr, sizeof(udp_addr)) == (ssize_t) (8 + len)
		        ? 0
		        : -1);
	}
	size_t   flen;
	uint8_t *f  = (tran == T_WS) ? ws_frame(payload, len, &flen) : rp_frame(rp_kind_of(), NULL, 0, payload, len, &flen);
	int      rv = rp_write_all(ctl_fd, f, flen, TMO);
	free(f);
	return (rv);
}

static int
ctl_recv_ms(uint8_t **payload, size_t *plen, int ms)
{
	uint8_t rawhead[9];
	if (tran == T_UDP) {
		int64_t end = now_ms() + ms;
		while (now_ms() < end) {
			uint8_t buf[2048];
			ssize_t n = udp_recv(udp_ctl_fd, buf, sizeof(buf), (int) (end - now_ms()) + 1);
			if (n >= 8 && buf[0] == 1 && buf[1] == 0) {
				size_t l = buf[4] | ((size_t) buf[5] << 8);
				if (l > (size_t) n - 8) {
					l = (size_t) n - 8;
				}
				*payload = malloc(l ? l : 1);
				memcpy(*payload, buf + 8, l);
				*plen = l;
				return (0);
			}
			if (n >= 8 && buf[0] == 1 && buf[1] == 1) { // keep-alive CREQ from nng: answer
				uint8_t d[8];
				udp_hdr(d, 2, peer_proto, 65000, 5);
				sendto(udp_ctl_fd, d, 8, 0, (struct sockaddr *) &udp_addr, sizeof(udp_addr));
			}
		}
		return (-1);
	}
	if (tran == T_WS) {
		return (ws_read_frame(ctl_fd, payload, plen));
	}
	return (rp_read_frame(ctl_fd, rp_kind_of(), 0, 1 << 20, payload, plen, rawhead, ms));
}

static int
ctl_recv(uint8_t **payload, size_t *plen)
{
	return (ctl_recv_ms(payload, plen, TMO));
}

// one valid exchange through the control connection; NULL = worked
static const char *
ctl_exchange(void)
{
	uint8_t  tag[8], pl[96];
	size_t   n = 0, from;
	uint8_t *rp;
	size_t   rl;
	ctl_seq++;
	for (int i = 0; i < 8; i++) {
		tag[i] = (uint8_t) ((0xC7A0000000000000ull | ctl_seq) >> (8 * (7 - i)));
	}
	pthread_mutex_lock(&mtx);
	from = ndlog;
	pthread_mutex_unlock(&mtx);

	if (proto == P_REQ || proto == P_SURVEYOR) {
		// the application asks, the control peer answers
		nng_msg *m;
		uint8_t  id[4];
		if (nng_msg_alloc(&m, 0) != 0) {
			return ("alloc");
		}
		if (raw) {
			nng_msg_header_append_u32(m, 0x80000000u | (uint32_t) ctl_seq);
		}
		nng_msg_append(m, tag, 8);
		if (nng_sendmsg(sock, m, 0) != 0) {
			nng_msg_free(m);
			return ("app-send");
		}
		// an earlier request may have gone to a hostile pipe that had completed a valid handshake (REQ may
		// pick any connected peer) and been resent to the control peer when that pipe went away: skip
		// requests that carry an OLDER control tag
		for (;;) {
			uint64_t seq = 0;
			if (ctl_recv(&rp, &rl) != 0) {
				return ("ctl-did-not-get-request");
			}
			if (rl == 12 && memcmp(rp + 4, tag, 8) == 0) {
				break;
			}
			if (rl == 12) {
				for (int i = 0; i < 8; i++) {
					seq = (seq << 8) | rp[4 + i];
				}
			}
			free(rp);
			if (rl != 12 || (seq >> 48) != 0xC7A0 || (seq & 0xffffffffffffull) >= ctl_seq) {
				return ("ctl-got-wrong-request");
			}
		}
		memcpy(id, rp, 4);
		free(rp);
		memcpy(pl, id, 4);
		tag[0] = 0xC8;
		memcpy(pl + 4, tag, 8);
		if (ctl_send(pl, 12) != 0) {
			return ("ctl-write");
		}
		if (!rx_armed) {
			nng_msg *r;
			int      rv = nng_recvmsg(sock, &r, 0);
			if (rv != 0) {
				return ("app-recv");
			}
			if (nng_msg_len(r) != 8 || memcmp(nng_msg_body(r), tag, 8) != 0) {
				log_msg(r); // a foreign message reached the application: report it as a delivery
				nng_msg_free(r);
				return ("app-got-wrong-reply");
			}
			nng_msg_free(r);
			return (NULL);
		}
		return (wait_ctl_delivery(from, tag, TMO) ? NULL : "app-did-not-get-reply");
	}

	// the control peer sends, the application receives (and answers for REP / RESPONDENT)
	if (proto == P_PAIR1) {
		pl[n++] = 0;
		pl[n++] = 0;
		pl[n++] = 0;
		pl[n++] = 1;
	} else if (proto == P_REP || proto == P_RESPONDENT) {
		pl[n++] = 0x80;
		pl[n++] = 0;
		pl[n++] = (uint8_t) (ctl_seq >> 8);
		pl[n++] = (uint8_t) ctl_seq;
	} else if (proto == P_SUB) {
		memcpy(pl, subpre, subprelen);
		n = subprelen;
	}
	memcpy(pl + n, tag, 8);
	n += 8;
	if (tran == T_UDP) {
		// a datagram may be lost (in theory, on loopback): the exchange is repeated with the same tag;
		// every wait is on the explicit condition (delivery logged / matching answer read)
		const char *why = "ctl-write";
		for (int attempt = 0; attempt < 3; attempt++) {
			if (attempt > 0) {
				udp_retries++; // loopback does not lose datagrams: every repetition is reported
			}
			if (ctl_send(pl, n) != 0) {
				continue;
			}
			if (!wait_ctl_delivery(from, tag, TMO / 2)) {
				why = "app-did-not-get-control-message";
				continue;
			}
			if (!needs_reply()) {
				return (NULL);
			}
			why = "ctl-did-not-get-reply";
			for (int64_t end = now_ms() + TMO / 2; now_ms() < end;) {
				if (ctl_recv_ms(&rp, &rl, (int) (end - now_ms()) + 1) != 0) {
					break;
				}
				if (rl == 12 && memcmp(rp, pl, 12) == 0) {
					free(rp);
					return (NULL);
				}
				free(rp); // a duplicate of an earlier answer
			}
		}
		return (why);
	}
	if (ctl_send(pl, n) != 0) {
		return ("ctl-write");
	}
	if (!wait_ctl_delivery(from, tag, TMO)) {
		return ("app-did-not-get-control-message");
	}
	if (needs_reply()) {
		if (ctl_recv(&rp, &rl) != 0) {
			return ("ctl-did-not-get-reply");
		}
		if (rl != 12 || memcmp(rp, pl, 12) != 0) {
			free(rp);
			return ("ctl-got-wrong-reply");
		}
		free(rp);
	}
	return (NULL);
}

static void
ctl_drop(void)
{
	if (udp_ctl_fd >= 0) {
		uint8_t d[8];
		udp_hdr(d, 3, peer_proto, 0, 0); // DISC: nng closes the pipe of this sender
		for (int attempt = 0; attempt < 4; attempt++) {
			(void) sendto(udp_ctl_fd, d, 8, 0, (struct sockaddr *) &udp_addr, sizeof(udp_addr));
			if (wait_balanced(0, TMO / 4)) {
				break;
			}
		}
		close(udp_ctl_fd);
		udp_ctl_fd = -1;
	}
	if (ctl_fd >= 0) {
		close(ctl_fd);
		ctl_fd = -1;
		(void) wait_balanced(0, TMO);
	}
	ctl_pipe = 0;
}

// ------------------------------------------------------------------ commands
static void
print_deliveries(size_t from, size_t addfrom)
{
	size_t n = 0;
	pthread_mutex_lock(&mtx);
	for (size_t i = from; i < ndlog; i++) {
		if (dlog[i].pipe != ctl_pipe) {
			n++;
		}
	}
	printf(" pipes=");
	if (addfrom >= nadded) {
		printf("-");
	}
	for (size_t i = addfrom; i < nadded; i++) {
		printf("%s%" PRIu32, i > addfrom ? "," : "", added[i]);
		if (tran == T_UDP) {
			printf("@%u", (unsigned) aport[i]);
		}
	}
	printf(" n=%zu", n);
	for (size_t i = from; i < ndlog; i++) {
		if (dlog[i].pipe != ctl_pipe) {
			printf(" D %" PRIu32 " %s %s", dlog[i].pipe, dlog[i].hdr, dlog[i].body);
		}
	}
	pthread_mutex_unlock(&mtx);
}

static void
cmd_open(char **w, int nw)
{
	const char *why = NULL;
	int         rv;
	size_t      rcvmax;
	if (nw < 7 || is_open) {
		printf("open FAIL:usage\n");
		return;
	}
	tran  = parse_tran(w[1]);
	proto = parse_proto(w[2]);
	raw   = w[3][0] == '1';
	if (tran < 0 || proto < 0 || (rv = open_sock()) != 0) {
		printf("open FAIL:socket\n");
		return;
	}
	nng_socket_set_ms(sock, NNG_OPT_RECVTIMEO, TMO);
	nng_socket_set_ms(sock, NNG_OPT_SENDTIMEO, 2000);
	if (strcmp(w[4], "def") != 0) {
		rcvmax = (size_t) strtoull(w[4], NULL, 10);
		if (nng_socket_set_size(sock, NNG_OPT_RECVMAXSZ, rcvmax) != 0) {
			why = "rcvmax";
		}
	}
	(void) nng_socket_set_int(sock, NNG_OPT_MAXTTL, atoi(w[5]));
	subprelen = 0;
	if (proto == P_SUB) {
		uint8_t *b = rp_parse_bytes(w[6], &subprelen);
		if (subprelen > sizeof(subpre)) {
			subprelen = sizeof(subpre);
		}
		memcpy(subpre, b, subprelen);
		free(b);
		if (!raw && nng_sub0_socket_subscribe(sock, subpre, subprelen) != 0) {
			why = "subscribe";
		}
	}
	if (proto == P_REQ && !raw) {
		nng_socket_set_ms(sock, NNG_OPT_REQ_RESENDTIME, 300);
	}
	nng_pipe_notify(sock, NNG_PIPE_EV_ADD_POST, pipe_cb, NULL);
	nng_pipe_notify(sock, NNG_PIPE_EV_REM_POST, pipe_cb, NULL);
	ndlog = nadded = nremoved = nrem_unadded = 0;
	stuck_pipes                              = 0;
	rx_stopped                = false;
	switch (tran) {
	case T_TCP:
	case T_WS: {
		int port = 0;
		rv       = nng_listen(sock, tran == T_WS ? "ws://127.0.0.1:0" : "tcp://127.0.0.1:0", &lst, 0);
		if (rv == 0) {
			rv = nng_listener_get_int(lst, NNG_OPT_BOUND_PORT, &port);
		}
		snprintf(url, sizeof(url), "tcp://127.0.0.1:%d", port);
		break;
	}
	case T_UDP: {
		int port = 0;
		rv       = nng_listen(sock, "udp://127.0.0.1:0", &lst, 0);
		if (rv == 0) {
			rv = nng_listener_get_int(lst, NNG_OPT_BOUND_PORT, &port);
		}
		memset(&udp_addr, 0, sizeof(udp_addr));
		udp_addr.sin_family      = AF_INET;
		udp_addr.sin_addr.s_addr = htonl(INADDR_LOOPBACK);
		udp_addr.sin_port        = htons((uint16_t) port);
		break;
	}
	case T_IPC: {
		static unsigned k;
		char            nurl[200];
		snprintf(url, sizeof(url), "ipc://%s/h%u.sock", tmpdir, k++);
		snprintf(nurl, sizeof(nurl), "%s", url);
		rv = nng_listen(sock, nurl, &lst, 0);
		break;
	}
	default:
		rv = nng_listener_create(&lst, sock, "socket://");
		if (rv == 0) {
			rv = nng_listener_start(lst, 0);
		}
		break;
	}
	if (rv != 0) {
		printf("open FAIL:listen-%d\n", rv);
		nng_socket_close(sock);
		return;
	}
	is_open  = true;
	rx_armed = !((proto == P_REQ || proto == P_SURVEYOR) && !raw);
	nng_aio_alloc(&raio, recv_cb, NULL);
	nng_aio_alloc(&saio, send_cb, NULL);
	nng_aio_set_timeout(raio, NNG_DURATION_INFINITE);
	nng_aio_set_timeout(saio, 2000);
	if (rx_armed) {
		nng_socket_recv(sock, raio);
	}
	ctl_seq = 0;
	if (why == NULL) {
		why = ctl_connect_retry();
	}
	if (why != NULL) {
		printf("open FAIL:%s\n", why);
	} else {
		printf("open ok ctlpipe=%" PRIu32 " tries=%d\n", ctl_pipe, ctl_tries);
	}
}

static void
hard_close(int fd)
{
	struct linger lg = { 1, 0 };
	setsockopt(fd, SOL_SOCKET, SO_LINGER, &lg, sizeof(lg));
	close(fd);
}

// read whatever nng sends until it closes its side; returns 1 when the close was seen
static int
drain_until_eof(int fd, uint8_t *keep, size_t cap, size_t *kept, int ms)
{
	int64_t end = now_ms() + ms;
	for (;;) {
		struct pollfd pfd = { .fd = fd, .events = POLLIN };
		uint8_t       buf[4096];
		int64_t       left = end - now_ms();
		ssize_t       n;
		if (left <= 0 || poll(&pfd, 1, (int) left) <= 0) {
			return (0);
		}
		n = recv(fd, buf, sizeof(buf), 0);
		if (n == 0 || (n < 0 && errno != EINTR && errno != EAGAIN)) {
			return (1);
		}
		for (ssize_t i = 0; i < n && *kept < cap; i++) {
			keep[(*kept)++] = buf[i];
		}
	}
}

static void
cmd_sess(char **w, int nw)
{
	size_t      dfrom, afrom, rfrom, total = 0, written = 0, kept = 0;
	uint8_t     keep[4096];
	size_t      keepcap = tran == T_WS ? sizeof(keep) : 16; // ws: every response head and close frame nng wrote
	int         fd, eof = 0;
	char        mode   = w[2][0];
	bool        expect = w[3][0] == '1';
	const char *ctl    = NULL;
	bool        ctl_held = ctl_fd >= 0 || udp_ctl_fd >= 0;
	pthread_mutex_lock(&mtx);
	dfrom = ndlog;
	afrom = nadded;
	rfrom = nremoved;
	pthread_mutex_unlock(&mtx);
	if ((fd = peer_connect()) < 0) {
		printf("sess %s FAIL:connect-%d\n", w[1], errno);
		return;
	}
	for (int i = 4; i < nw; i++) {
		size_t   len;
		uint8_t *b = rp_parse_bytes(w[i], &len);
		total += len;
		if (written == total - len && rp_write_all(fd, b, len, TMO) == 0) {
			written += len;
		}
		free(b);
	}
	if (mode == 'x') {
		if (expect) {
			(void) wait_added(afrom + 1, 3000);
		}
		// nng writes its negotiation bytes as soon as it has accepted the connection: reading them first
		// makes sure the reset hits an accepted connection (and keeps pipe ids = connection order)
		if (tran != T_WS) {
			uint8_t hs8[8];
			if (rp_read_exact(fd, hs8, 8, 0, 2000) == 0) {
				memcpy(keep, hs8, 8);
				kept = 8;
			}
		}
		hard_close(fd);
		eof = 1;
	} else {
		if (mode == 'i') {
			ctl = ctl_held ? ctl_exchange() : NULL;
			// REQ may hand the request to ANY connected peer, and this session is one as soon as its
			// handshake was valid: the control peer not seeing the request while the session is still
			// connected is allowed; the exchange after the session has gone decides
			if (ctl != NULL && proto == P_REQ && strcmp(ctl, "ctl-did-not-get-request") == 0) {
				ctl = NULL;
			}
		}
		shutdown(fd, SHUT_WR);
		eof = drain_until_eof(fd, keep, keepcap, &kept, TMO);
		close(fd);
	}
	// every pipe this session caused must go away again
	if (!wait_balanced((ctl_held ? 1 : 0) + stuck_pipes, TMO)) {
		pthread_mutex_lock(&mtx);
		stuck_pipes = nadded - nremoved - (ctl_held ? 1 : 0);
		pthread_mutex_unlock(&mtx);
	}
	if (ctl == NULL && ctl_held) {
		ctl = ctl_exchange();
	}
	pthread_mutex_lock(&mtx);
	{
		char *rx = hexdup(keep, kept, false);
		printf("sess %s wr=%zu/%zu rx=%s eof=%d add=%zu rem=%zu", w[1], written, total, rx, eof, nadded - afrom,
		    nremoved - rfrom);
		free(rx);
	}
	pthread_mutex_unlock(&mtx);
	printf(" ctl=%s%s", ctl ? "FAIL:" : "ok", ctl ? ctl : "");
	print_deliveries(dfrom, afrom);
	printf("\n");
}

static void
cmd_flood(char **w, int nw)
{
	int         n = atoi(w[2]), opened = 0;
	int        *fds = calloc((size_t) n + 1, sizeof(int));
	size_t      len, dfrom, afrom, rfrom;
	uint8_t    *b   = rp_parse_bytes(nw > 3 ? w[3] : "-", &len);
	const char *ctl;
	pthread_mutex_lock(&mtx);
	dfrom = ndlog;
	afrom = nadded;
	rfrom = nremoved;
	pthread_mutex_unlock(&mtx);
	for (int i = 0; i < n; i++) {
		if ((fds[i] = peer_connect()) < 0) {
			break;
		}
		opened++;
		(void) rp_write_all(fds[i], b, len, TMO);
	}
	ctl = ctl_exchange();
	for (int i = 0; i < opened; i++) {
		uint8_t hs8[8];
		if (tran != T_WS) {
			(void) rp_read_exact(fds[i], hs8, 8, 0, 2000); // accepted (see cmd_sess)
		}
		if (i % 2) {
			hard_close(fds[i]);
		} else {
			close(fds[i]);
		}
	}
	if (!wait_balanced(1 + stuck_pipes, TMO)) {
		pthread_mutex_lock(&mtx);
		stuck_pipes = nadded - nremoved - 1;
		pthread_mutex_unlock(&mtx);
	}
	if (ctl == NULL) {
		ctl = ctl_exchange();
	}
	pthread_mutex_lock(&mtx);
	printf("flood %s opened=%d add=%zu rem=%zu", w[1], opened, nadded - afrom, nremoved - rfrom);
	pthread_mutex_unlock(&mtx);
	printf(" ctl=%s%s", ctl ? "FAIL:" : "ok", ctl ? ctl : "");
	print_deliveries(dfrom, afrom);
	printf("\n");
	free(fds);
	free(b);
}

#define MAXSRC 16

// replies nng sent to one session sender: op codes (DISC with its reason)
typedef struct {
	int    fd;
	int    port;
	int    nrep;
	char   ops[256];
} udp_src;

static void
src_collect(udp_src *u, int want, int ms)
{
	int64_t end = now_ms() + ms;
	for (;;) {
		uint8_t buf[2048];
		int64_t left = end - now_ms();
		ssize_t n;
		size_t  l;
		if (want >= 0 && u->nrep >= want) {
			return;
		}
		n = udp_recv(u->fd, buf, sizeof(buf), want < 0 ? 0 : (left > 0 ? (int) left : 0));
		if (n < 0) {
			return; // nothing (more) within the time
		}
		l = strlen(u->ops);
		if (l + 12 < sizeof(u->ops)) {
			if (n >= 8 && buf[1] == 3) {
				snprintf(u->ops + l, sizeof(u->ops) - l, "%sd%d", l ? "," : "", buf[4] | (buf[5] << 8));
			} else if (n >= 8 && buf[1] == 2) {
				snprintf(u->ops + l, sizeof(u->ops) - l, "%sc", l ? "," : "");
			} else {
				snprintf(u->ops + l, sizeof(u->ops) - l, "%s?%d", l ? "," : "", n >= 2 ? buf[1] : -1);
			}
		}
		u->nrep++;
	}
}

// dgram <id> <nsrc> <src>:<replies>.<adds>.<reaps>.<barrier>.<deliveries>:<datagram-hex> ...
//   nsrc fresh udp sockets are the session's senders.  Each datagram is sent from its sender; then the
//   harness waits (each wait bounded by TMO, on the explicit condition) until that sender has received
//   `replies` more datagrams from nng, `adds` more pipes were added and `reaps` more pipes had their REM_POST
//   (the numbers are the Lean model's prediction, so that the next datagram meets a settled endpoint), then
//   the `deliveries` messages the model expects from this datagram have reached the application, then
//   (barrier=1) a control exchange shows that nng has read everything sent so far.
//   -> "dgram <id> rx=<ops of sender 0>;<ops of sender 1>.. wt=<waits that timed out> ctl=.. ports=<p0>,<p1>.. pipes=<id>@<port>,.. n=<k> [D ...]"
static void
cmd_dgram(char **w, int nw)
{
	size_t      dfrom, afrom, rfrom, hfrom, adds = 0, reaps = 0, dels = 0;
	int         nsrc = atoi(w[2]), wt = 0, rt0 = udp_retries;
	udp_src     src[MAXSRC];
	const char *ctl = NULL;
	if (nsrc < 1 || nsrc > MAXSRC) {
		printf("dgram %s FAIL:usage\n", w[1]);
		return;
	}
	pthread_mutex_lock(&mtx);
	dfrom = ndlog;
	hfrom = nhostile;
	afrom = nadded;
	rfrom = nremoved + nrem_unadded;
	pthread_mutex_unlock(&mtx);
	for (int i = 0; i < nsrc; i++) {
		struct sockaddr_in sa;
		socklen_t          sl = sizeof(sa);
		memset(&src[i], 0, sizeof(src[i]));
		src[i].fd = udp_socket();
		if (src[i].fd < 0 || getsockname(src[i].fd, (struct sockaddr *) &sa, &sl) != 0) {
			printf("dgram %s FAIL:socket-%d\n", w[1], errno);
			return;
		}
		src[i].port = ntohs(sa.sin_port);
	}
	for (int i = 3; i < nw; i++) {
		int      k = 0, nrep = 0, nadd = 0, nreap = 0, barrier = 1, ndel = 0;
		char    *c1 = strchr(w[i], ':'), *c2 = c1 ? strchr(c1 + 1, ':') : NULL;
		size_t   len;
		uint8_t *b;
		if (c2 == NULL || sscanf(w[i], "%d:%d.%d.%d.%d.%d:", &k, &nrep, &nadd, &nreap, &barrier, &ndel) != 6 || k < 0 || k >= nsrc) {
			continue;
		}
		b = rp_parse_bytes(c2 + 1, &len);
		(void) sendto(src[k].fd, b, len, 0, (struct sockaddr *) &udp_addr, sizeof(udp_addr));
		free(b);
		if (nrep > 0) {
			int want = src[k].nrep + nrep;
			src_collect(&src[k], want, TMO);
			if (src[k].nrep < want) {
				wt++;
			}
		}
		adds += (size_t) nadd;
		reaps += (size_t) nreap;
		if (nadd > 0 && !wait_added(afrom + adds, TMO)) {
			wt++;
		}
		if (nreap > 0 && !wait_reaped(rfrom + reaps, TMO)) {
			wt++;
		}
		if (ndel > 0) {
			// the delivery the model expects from this datagram (nng may complete receives of different pipes in
			// any order, so a control exchange alone does not prove that it has reached the application)
			dels += (size_t) ndel;
			if (!wait_deliveries(hfrom + dels, TMO / 2)) {
				wt++;
				dels = 0;
				pthread_mutex_lock(&mtx);
				hfrom = nhostile;
				pthread_mutex_unlock(&mtx);
			}
		}
		if (barrier && ctl == NULL && udp_ctl_fd >= 0) {
			ctl = ctl_exchange();
		}
	}
	if (ctl == NULL && udp_ctl_fd >= 0) {
		ctl = ctl_exchange();
	}
	printf("dgram %s rx=", w[1]);
	for (int i = 0; i < nsrc; i++) {
		src_collect(&src[i], -1, 0); // whatever else nng sent, without waiting
		printf("%s%s", i ? ";" : "", src[i].ops[0] ? src[i].ops : "-");
	}
	printf(" wt=%d rt=%d ctl=%s%s ports=", wt, udp_retries - rt0, ctl ? "FAIL:" : "ok", ctl ? ctl : "");
	for (int i = 0; i < nsrc; i++) {
		printf("%s%d", i ? "," : "", src[i].port);
		close(src[i].fd);
	}
	print_deliveries(dfrom, afrom);
	printf("\n");
}

// dflood <id> <n> <datagram-hex>...   n senders each send all the datagrams at once (no waiting in between),
//   a control exchange runs while their associations are up, every sender then says DISC; all pipes the flood
//   caused must go away.   -> "dflood <id> opened=<k> add=<n> rem=<n> ctl=.. pipes=.. n=<k> [D ...]"
static void
cmd_dflood(char **w, int nw)
{
	int         n = atoi(w[2]), opened = 0;
	int        *fds = calloc((size_t) n + 1, sizeof(int));
	size_t      dfrom, afrom, rfrom;
	const char *ctl;
	uint8_t     d[8];
	pthread_mutex_lock(&mtx);
	dfrom = ndlog;
	afrom = nadded;
	rfrom = nremoved;
	pthread_mutex_unlock(&mtx);
	for (int i = 0; i < n; i++) {
		if ((fds[i] = udp_socket()) < 0) {
			break;
		}
		opened++;
		for (int j = 3; j < nw; j++) {
			size_t   len;
			uint8_t *b = rp_parse_bytes(w[j], &len);
			(void) sendto(fds[i], b, len, 0, (struct sockaddr *) &udp_addr, sizeof(udp_addr));
			free(b);
		}
	}
	ctl = ctl_exchange();
	udp_hdr(d, 3, peer_proto, 0, 0);
	for (int i = 0; i < opened; i++) {
		if (i % 3 != 2) { // every third sender just disappears: nng keeps that pipe until it expires or the socket closes
			(void) sendto(fds[i], d, 8, 0, (struct sockaddr *) &udp_addr, sizeof(udp_addr));
		}
	}
	if (ctl == NULL) {
		ctl = ctl_exchange();
	}
	for (int i = 0; i < opened; i++) {
		close(fds[i]);
	}
	pthread_mutex_lock(&mtx);
	printf("dflood %s opened=%d add=%zu rem=%zu", w[1], opened, nadded - afrom, nremoved - rfrom);
	pthread_mutex_unlock(&mtx);
	printf(" ctl=%s%s", ctl ? "FAIL:" : "ok", ctl ? ctl : "");
	print_deliveries(dfrom, afrom);
	printf("\n");
	free(fds);
}

// dhold <id> <n> <datagram-hex>: n fresh senders each send the datagram once, wait for nng's answer (bounded) and stay; their
//   sockets are kept until dfree.  Used to fill the listener's peer table (NNG_UDP_MAX_PEERS) with well-formed CREQs.
static int   *held;
static int    nheld;
static size_t held_added;

static void
cmd_dhold(char **w, int nw)
{
	int      n = atoi(w[2]), opened = 0, cack = 0, nobuf = 0, other = 0;
	size_t   afrom, len;
	uint8_t *b;
	(void) nw;
	if (n < 1 || n > 60000 || held != NULL) {
		printf("dhold %s FAIL:usage\n", w[1]);
		return;
	}
	held = calloc((size_t) n, sizeof(int));
	b    = rp_parse_bytes(w[3], &len);
	pthread_mutex_lock(&mtx);
	afrom = nadded;
	pthread_mutex_unlock(&mtx);
	for (int i = 0; i < n; i++) {
		uint8_t r[64];
		ssize_t m;
		int     fd = udp_socket();
		if (fd < 0) {
			break;
		}
		held[nheld++] = fd;
		opened++;
		(void) sendto(fd, b, len, 0, (struct sockaddr *) &udp_addr, sizeof(udp_addr));
		m = udp_recv(fd, r, sizeof(r), TMO);
		if (m >= 8 && r[1] == 2) {
			cack++;
		} else if (m >= 8 && r[1] == 3 && (r[4] | (r[5] << 8)) == 8) {
			nobuf++;
		} else {
			other++;
		}
		if ((i & 63) == 63) {
			alarm((unsigned) (12 * TMO / 1000 + 30));
		}
	}
	free(b);
	(void) wait_added(afrom + (size_t) cack, TMO);
	pthread_mutex_lock(&mtx);
	held_added = nadded - afrom;
	pthread_mutex_unlock(&mtx);
	printf("dhold %s opened=%d cack=%d nobuf=%d other=%d add=%zu\n", w[1], opened, cack, nobuf, other, held_added);
}

static void
cmd_dfree(char **w)
{
	uint8_t d[8];
	size_t  rfrom, rem;
	int     n = nheld;
	pthread_mutex_lock(&mtx);
	rfrom = nremoved + nrem_unadded;
	pthread_mutex_unlock(&mtx);
	udp_hdr(d, 3, peer_proto, 0, 0);
	for (int i = 0; i < nheld; i++) {
		(void) sendto(held[i], d, 8, 0, (struct sockaddr *) &udp_addr, sizeof(udp_addr));
		if ((i & 255) == 255) {
			usleep(2000); // do not overrun nng's socket buffer: a lost DISC would leave the pipe to the inactivity timer
		}
	}
	(void) wait_reaped(rfrom + held_added, TMO);
	pthread_mutex_lock(&mtx);
	rem = nremoved + nrem_unadded - rfrom;
	pthread_mutex_unlock(&mtx);
	for (int i = 0; i < nheld; i++) {
		close(held[i]);
	}
	free(held);
	held  = NULL;
	nheld = 0;
	printf("dfree %s n=%d rem=%zu\n", w[1], n, rem);
}

// ctl_burst <n> [<fill>]: the control peer sends n messages (each with <fill> extra payload bytes) one after the other WITHOUT waiting in between (a well-behaved
// peer may do that), then the harness waits (bounded) until the application has received all of them; nothing is
// repeated.  -> "ctl_burst ok n=<n>" | "ctl_burst FAIL:<k>-of-<n>-delivered"
static void
cmd_ctl_burst(int n, size_t fill)
{
	size_t  from;
	uint8_t tag[8], pl[96 + 8000];
	int     got = 0;
	if (n < 1 || n > 12 || fill > 8000 || proto == P_REQ || proto == P_SURVEYOR || needs_reply()) {
		printf("ctl_burst FAIL:usage\n");
		return;
	}
	pthread_mutex_lock(&mtx);
	from = ndlog;
	pthread_mutex_unlock(&mtx);
	for (int k = 0; k < n; k++) {
		size_t len = 0;
		ctl_seq++;
		for (int i = 0; i < 8; i++) {
			tag[i] = (uint8_t) ((0xC7A0000000000000ull | ctl_seq) >> (8 * (7 - i)));
		}
		if (proto == P_PAIR1) {
			pl[len++] = 0;
			pl[len++] = 0;
			pl[len++] = 0;
			pl[len++] = 1;
		} else if (proto == P_SUB) {
			memcpy(pl, subpre, subprelen);
			len = subprelen;
		}
		memset(pl + len, 0x5a, fill);
		len += fill;
		memcpy(pl + len, tag, 8);
		(void) ctl_send(pl, len + 8);
	}
	for (int k = n - 1; k >= 0; k--) {
		for (int i = 0; i < 8; i++) {
			tag[i] = (uint8_t) ((0xC7A0000000000000ull | (ctl_seq - (uint64_t) k)) >> (8 * (7 - i)));
		}
		if (wait_ctl_delivery(from, tag, got == n - 1 - k ? TMO / 2 : 0)) {
			got++;
		}
	}
	if (got == n) {
		printf("ctl_burst ok n=%d\n", n);
	} else {
		printf("ctl_burst FAIL:%d-of-%d-delivered\n", got, n);
	}
}

static void
cmd_close(void)
{
	size_t dfrom = 0;
	int    ctl_eof = 1;
	size_t a, r;
	if (!is_open) {
		printf("close FAIL:not-open\n");
		return;
	}
	pthread_mutex_lock(&mtx);
	dfrom = ndlog;
	pthread_mutex_unlock(&mtx);
	nng_socket_close(sock);
	if (ctl_fd >= 0) {
		ctl_eof = rp_wait_closed(ctl_fd, TMO) ? 1 : 0;
		close(ctl_fd);
		ctl_fd = -1;
	}
	if (udp_ctl_fd >= 0) {
		close(udp_ctl_fd);
		udp_ctl_fd = -1;
	}
	nng_aio_stop(raio);
	nng_aio_stop(saio);
	nng_aio_free(raio);
	nng_aio_free(saio);
	is_open = false;
	pthread_mutex_lock(&mtx);
	a = nadded;
	r = nremoved;
	pthread_mutex_unlock(&mtx);
	ctl_pipe = 0;
	while (nparked > 0) {
		close(parked[--nparked]);
	}
	printf("close ok add=%zu rem=%zu ctl_eof=%d retries=%d", a, r, ctl_eof, udp_retries);
	udp_retries = 0;
	print_deliveries(dfrom, a);
	printf("\n");
	pthread_mutex_lock(&mtx);
	for (size_t i = 0; i < ndlog; i++) {
		free(dlog[i].hdr);
		free(dlog[i].body);
	}
	ndlog = 0;
	pthread_mutex_unlock(&mtx);
}

int
main(void)
{
	char              *line = NULL;
	size_t             cap  = 0;
	ssize_t            n;
	nng_init_params    ip;
	pthread_condattr_t ca;
	const char        *td = getenv("TMPDIR");
	static char       *w[70000];

	signal(SIGPIPE, SIG_IGN);
	signal(SIGALRM, on_alarm);
	{
		struct rlimit rl; // dhold keeps more than a thousand sockets
		if (getrlimit(RLIMIT_NOFILE, &rl) == 0 && rl.rlim_cur < 8192) {
			rl.rlim_cur = rl.rlim_max < 8192 ? rl.rlim_max : 8192;
			(void) setrlimit(RLIMIT_NOFILE, &rl);
		}
	}
	if (getenv("C11_TMO") != NULL && atoi(getenv("C11_TMO")) >= 1000) {
		TMO = atoi(getenv("C11_TMO"));
	}
	pthread_condattr_init(&ca);
	pthread_condattr_setclock(&ca, CLOCK_MONOTONIC);
	pthread_cond_init(&cv, &ca);
	snprintf(tmpdir, sizeof(tmpdir), "%s/c11-%d", (td && *td) ? td : "/tmp", (int) getpid());
	if (mkdir(tmpdir, 0700) != 0 && errno != EEXIST) {
		fprintf(stderr, "cannot create %s\n", tmpdir);
		return (3);
	}
	memset(&ip, 0, sizeof(ip));
	ip.num_task_threads     = 4;
	ip.max_task_threads     = 4;
	ip.num_expire_threads   = 1;
	ip.max_expire_threads   = 1;
	ip.num_poller_threads   = 2;
	ip.max_poller_threads   = 2;
	ip.num_resolver_threads = 1;
	if (nng_init(&ip) != 0) {
		fprintf(stderr, "nng_init failed\n");
		return (3);
	}
	{
		const char *cs = getenv("C11_CLAMP_SEED");
		if (cs != NULL && rp_clamp_available()) {
			static const size_t pal[] = { 1, 1, 2, 3, 5, 8, 64 };
			rp_clamp_install(strtoull(cs, NULL, 10), pal, 7, 500);
		}
	}
	while ((n = getline(&line, &cap, stdin)) > 0) {
		int nw = 0;
		while (n > 0 && (line[n - 1] == '\n' || line[n - 1] == '\r')) {
			line[--n] = 0;
		}
		for (char *t = strtok(line, " "); t != NULL && nw < 69999; t = strtok(NULL, " ")) {
			w[nw++] = t;
		}
		if (nw == 0) {
			continue;
		}
		snprintf(curcmd, sizeof(curcmd), "%s %s", w[0], nw > 1 ? w[1] : "");
		alarm((unsigned) (12 * TMO / 1000 + 30));
		if (strcmp(w[0], "open") == 0) {
			cmd_open(w, nw);
		} else if (!is_open) {
			printf("%s FAIL:not-open\n", w[0]);
		} else if (strcmp(w[0], "sess") == 0 && nw >= 4) {
			cmd_sess(w, nw);
		} else if (strcmp(w[0], "dgram") == 0 && nw >= 4 && tran == T_UDP) {
			cmd_dgram(w, nw);
		} else if (strcmp(w[0], "dflood") == 0 && nw >= 3 && tran == T_UDP) {
			cmd_dflood(w, nw);
		} else if (strcmp(w[0], "dhold") == 0 && nw >= 4 && tran == T_UDP) {
			cmd_dhold(w, nw);
		} else if (strcmp(w[0], "dfree") == 0 && nw >= 2 && tran == T_UDP) {
			cmd_dfree(w);
		} else if (strcmp(w[0], "flood") == 0 && nw >= 3) {
			cmd_flood(w, nw);
		} else if (strcmp(w[0], "ctl") == 0) {
			const char *r = ctl_exchange();
			printf("ctl %s%s\n", r ? "FAIL:" : "ok", r ? r : "");
		} else if (strcmp(w[0], "ctl_burst") == 0 && nw >= 2) {
			cmd_ctl_burst(atoi(w[1]), nw > 2 ? (size_t) atoi(w[2]) : 0);
		} else if (strcmp(w[0], "ctl_drop") == 0) {
			ctl_drop();
			printf("ctl_drop ok\n");
		} else if (strcmp(w[0], "ctl_connect") == 0) {
			const char *r = ctl_connect_retry();
			printf("ctl_connect %s%s tries=%d\n", r ? "FAIL:" : "ok", r ? r : "", ctl_tries);
		} else if (strcmp(w[0], "close") == 0) {
			cmd_close();
		} else {
			printf("bad-op\n");
		}
		alarm(0);
		fflush(stdout);
	}
	if (is_open) {
		cmd_close();
	}
	free(line);
	rp_clamp_remove();
	nng_fini();
	rmdir(tmpdir);
	printf("bye\n");
	fflush(stdout);
	return (0);
}
