// UNIT op interpreter for C01: nni_aio_set_iov / nni_aio_iov_advance / nni_aio_iov_count on a
// real nni_aio, and nni_msg_pull_up with allocation failure injection.
// One output line per input line; same format as Driver/SpStream.lean (spstream-model).
#include "core/nng_impl.h"
#include <nng/nng.h>

#include "common.h"
#include "rawpeer.h"

static int           fail_in = -1; // fail the allocation when this reaches 0
static unsigned long n_alloc, n_fail_fired;

static int
should_fail(void)
{
	n_alloc++;
	if (fail_in == 0) {
		fail_in = -1;
		n_fail_fired++;
		return (1);
	}
	if (fail_in > 0) {
		fail_in--;
	}
	return (0);
}
static void *
v_malloc(size_t sz)
{
	return (should_fail() ? NULL : malloc(sz));
}
static void *
v_calloc(size_t n, size_t sz)
{
	return (should_fail() ? NULL : calloc(n, sz));
}
static void
v_free(void *p, size_t sz)
{
	(void) sz;
	free(p);
}

static bool     verbose;
static nni_aio  aio;
static uint8_t *bufs[256];
static int      nbufs;

static void
put_b(const uint8_t *b, size_t n)
{
	printf("%zu:%016" PRIx64, n, fnv64(b, n));
	if (verbose) {
		printf("/");
		if (n == 0) {
			printf("-");
		}
		for (size_t i = 0; i < n; i++) {
			printf("%02x", b[i]);
		}
	}
}

static void
show_aio(int rv)
{
	unsigned naiov;
	nni_iov *aiov;
	size_t   cnt = nni_aio_iov_count(&aio);
	nni_aio_get_iov(&aio, &naiov, &aiov);
	// the bytes the valid entries designate
	uint8_t *p = malloc(cnt ? cnt : 1);
	size_t   o = 0;
	for (unsigned i = 0; i < naiov; i++) {
		if (aiov[i].iov_len) {
			memcpy(p + o, aiov[i].iov_buf, aiov[i].iov_len);
		}
		o += aiov[i].iov_len;
	}
	printf("rv=%d count=%zu", rv, cnt);
	put_digest("pend", p, o);
	free(p);
	printf(" nio=%u iov=", naiov);
	for (unsigned i = 0; i < NNI_AIO_MAX_IOV; i++) {
		nni_iov *e = &aio.a_iov[i];
		if (i) {
			printf(",");
		}
		if (e->iov_len == 0) {
			printf("0");
		} else {
			printf("%zu:%016" PRIx64, e->iov_len, fnv64(e->iov_buf, e->iov_len));
		}
	}
	printf("\n");
}

static void
free_bufs(void)
{
	for (int i = 0; i < nbufs; i++) {
		free(bufs[i]);
	}
	nbufs = 0;
}

static void
fresh_aio(void)
{
	nni_aio_fini(&aio);
	memset(&aio, 0, sizeof(aio));
	nni_aio_init(&aio, NULL, NULL);
}

int
main(void)
{
	extern int nni_alloc_set(void *(*)(size_t), void *(*)(size_t, size_t), void (*)(void *, size_t));
	nni_alloc_set(v_malloc, v_calloc, v_free);
	if (nng_init(NULL) != 0) {
		fprintf(stderr, "nng_init failed\n");
		return (3);
	}
	nni_aio_init(&aio, NULL, NULL);

	while (next_line()) {
		if (vn == 0) {
			continue;
		}
		if (strcmp(vw[0], "reset") == 0) {
			fresh_aio();
			free_bufs();
			fail_in = -1;
			printf("reset\n");
			continue;
		}
		if (strcmp(vw[0], "verbose") == 0) {
			verbose = true;
			printf("ok\n");
			continue;
		}
		if (strcmp(vw[0], "iov") == 0) {
			// entries beyond what an earlier `iov` line set keep pointing into the
			// earlier buffers: keep those alive until reset
			nni_iov  iov[MAXW];
			unsigned n = 0;
			for (int i = 1; i < vn; i++) {
				size_t   len;
				uint8_t *b = rp_parse_bytes(vw[i], &len);
				if (nbufs >= (int) (sizeof(bufs) / sizeof(bufs[0]))) {
					fprintf(stderr, "too many iov entries in one case\n");
					return (4);
				}
				bufs[nbufs++] = b;
				iov[n].iov_buf = b;
				iov[n].iov_len = len;
				n++;
			}
			int rv = nni_aio_set_iov(&aio, n, iov);
			show_aio(rv);
			continue;
		}
		if (strcmp(vw[0], "adv") == 0 && vn == 2) {
			size_t n  = strtoull(vw[1], NULL, 10);
			size_t rv = nni_aio_iov_advance(&aio, n);
			show_aio((int) rv);
			continue;
		}
		if (strcmp(vw[0], "pullup") == 0 && vn == 8) {
			size_t   sz   = strtoull(vw[1], NULL, 10);
			uint64_t seed = strtoull(vw[2], NULL, 10);
			size_t   tr   = strtoull(vw[3], NULL, 10);
			size_t   ch   = strtoull(vw[4], NULL, 10);
			size_t   hlen;
			uint8_t *h    = rp_parse_bytes(vw[5], &hlen);
			int      refs = atoi(vw[6]);
			int      fl   = strcmp(vw[7], "-") == 0 ? -1 : atoi(vw[7]);
			nng_msg *m    = NULL, *r;
			if (nng_msg_alloc(&m, sz) != 0) {
				printf("bad-msg\n");
				free(h);
				continue;
			}
			rp_pattern(seed, sz, nng_msg_body(m));
			(void) nng_msg_trim(m, tr);
			(void) nng_msg_chop(m, ch);
			(void) nng_msg_header_append(m, h, hlen);
			free(h);
			for (int i = 1; i < refs; i++) {
				nni_msg_clone(m);
			}
			fail_in = fl;
			r       = nni_msg_pull_up(m);
			fail_in = -1;
			if (r == NULL) {
				printf("null\n");
				nni_msg_free(m); // what inproc does
			} else {
				printf("h=");
				put_b(nng_msg_header(r), nng_msg_header_len(r));
				printf(" b=");
				put_b(nng_msg_body(r), nng_msg_len(r));
				printf("\n");
				nni_msg_free(r);
			}
			// the extra references taken above (the duplicate path freed one of them)
			for (int i = 1; i < refs; i++) {
				nni_msg_free(m);
			}
			continue;
		}
		printf("bad-op\n");
	}
	nni_aio_fini(&aio);
	free_bufs();
	nng_fini();
	return (0);
}
