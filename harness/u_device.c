// UNIT harness for src/core/device.c (C13, device half): the REAL device.c is #included below with
// every call it makes to the outside renamed to a hook, so that the forwarder can be driven one
// completion at a time, deterministically, against FIFO fake sockets:
//   nni_sock_proto_id / peer_id / raw / flags      answered from the `sock` lines
//   nni_sock_recv / nni_sock_send                  park the aio on the fake socket (a receive is
//                                                  served at once when a message is queued)
//   nni_sock_device_hold / nni_sock_close_device   logged
//   nni_aio_*                                      a side table per aio (result, message slot, callback);
//                                                  nni_aio_abort is logged, the harness decides later
//                                                  how the aborted operation completes
//   nni_msg_free                                   logged, then the real one (ASan sees double frees,
//                                                  LSan sees leaks)
//   nni_reap                                       logged; device_fini runs after the line's output
//   nni_zalloc                                     can be made to fail once
// This is exactly `System` of lean/NngModel/Model/Device.lean; one output line per input line:
//   <calls in order, joined by " ; ", or "-"> | <state of device_data>
//
// lines:
//   sock <k> <proto-hex> <peer-hex> <flags>     define fake socket k (0..3)
//   device <k|-> <k|-> [noalloc] [nostart] [hold=<rv>]   nni_device(user, s1, s2)
//   arrive <k> <hdrhex> <bodyhex>               a message reaches socket k's receive side
//   run <i>                                     callback of path i's completed receive
//   recvfail <i> <e>                            socket fails path i's waiting receive with e
//   senddone <i> <rv>                           destination socket completes path i's send
//   cancel <rv>                                 the user aio is aborted with rv
//   reset
#include "core/nng_impl.h"

#include <stdarg.h>

#include "common.h"

#define MAXS 4
#define MAXA 8
#define MAXQ 64

// ---- event buffer ----
static char   evb[1 << 16];
static size_t evn;
static void
ev(const char *fmt, ...)
{
	va_list ap;
	if (evn > 0 && evn < sizeof(evb) - 4) {
		evn += (size_t) snprintf(evb + evn, sizeof(evb) - evn, " ; ");
	}
	va_start(ap, fmt);
	evn += (size_t) vsnprintf(evb + evn, sizeof(evb) - evn, fmt, ap);
	va_end(ap);
	if (evn >= sizeof(evb)) {
		evn = sizeof(evb) - 1;
	}
}
static void
hexs(char *out, size_t cap, const uint8_t *b, size_t n)
{
	if (n == 0) {
		snprintf(out, cap, "-");
		return;
	}
	size_t k = 0;
	for (size_t i = 0; i < n && k + 3 < cap; i++) {
		k += (size_t) snprintf(out + k, cap - k, "%02x", b[i]);
	}
}
static void
ev_msg(const char *pre, nni_msg *m)
{
	static char h[600], b[4200];
	if (m == NULL) {
		ev("%s NULL", pre);
		return;
	}
	hexs(h, sizeof(h), nni_msg_header(m), nni_msg_header_len(m));
	hexs(b, sizeof(b), nni_msg_body(m), nni_msg_len(m));
	ev("%s %s %s", pre, h, b);
}

// ---- fake aios ----
struct faio {
	nni_aio *aio;
	nni_cb   cb;
	void    *arg;
	int      result;
	nni_msg *msg;
	bool     stopped, finied;
};
static struct faio fa[MAXA];
static int         nfa;
static nni_aio     user_aio_mem; // never touched through the real aio functions
static nni_aio_cancel_fn user_cancel;
static void             *user_cancel_arg;
static bool              user_started, user_finished;
static bool              fail_start;

static struct faio *
fa_find(nni_aio *a)
{
	for (int i = 0; i < nfa; i++) {
		if (fa[i].aio == a) {
			return (&fa[i]);
		}
	}
	fflush(stdout);
	fprintf(stderr, "u_device: unknown aio %p\n", (void *) a);
	abort();
}
static int
fa_index(nni_aio *a)
{
	return ((int) (fa_find(a) - fa));
}

static void
hk_aio_init(nni_aio *a, nni_cb cb, void *arg)
{
	if (nfa >= MAXA) {
		abort();
	}
	memset(&fa[nfa], 0, sizeof(fa[nfa]));
	fa[nfa].aio = a;
	fa[nfa].cb  = cb;
	fa[nfa].arg = arg;
	nfa++;
}
static void
hk_aio_fini(nni_aio *a)
{
	fa_find(a)->finied = true;
}
static void
hk_aio_stop(nni_aio *a)
{
	fa_find(a)->stopped = true;
}
static void
hk_aio_set_timeout(nni_aio *a, nng_duration t)
{
	(void) fa_find(a);
	if (t != NNG_DURATION_INFINITE) {
		ev("timeout %d", (int) t);
	}
}
static nng_err
hk_aio_result(nni_aio *a)
{
	return ((nng_err) fa_find(a)->result);
}
static nni_msg *
hk_aio_get_msg(nni_aio *a)
{
	return (fa_find(a)->msg);
}
static void
hk_aio_set_msg(nni_aio *a, nni_msg *m)
{
	fa_find(a)->msg = m;
}
static void
hk_aio_reset(nni_aio *a)
{
	if (a == &user_aio_mem) {
		return;
	}
	fa_find(a)->result = 0;
}
static void
hk_aio_abort(nni_aio *a, nng_err rv)
{
	ev("abort %d %d", fa_index(a), (int) rv);
}
static bool
hk_aio_start(nni_aio *a, nni_aio_cancel_fn fn, void *arg)
{
	if (a != &user_aio_mem) {
		abort();
	}
	if (fail_start) {
		return (false);
	}
	user_cancel     = fn;
	user_cancel_arg = arg;
	user_started    = true;
	return (true);
}
static void
hk_aio_finish_error(nni_aio *a, nng_err rv)
{
	if (a != &user_aio_mem) {
		abort();
	}
	ev("finish %d", (int) rv);
	if (user_finished) {
		ev("FINISHED-TWICE");
	}
	user_finished = true;
	user_cancel   = NULL;
}

// ---- locks (device_mtx): only the balance is observed ----
static int lock_depth;
static void
hk_mtx_lock(nni_mtx *m)
{
	(void) m;
	if (lock_depth != 0) {
		ev("RELOCK");
	}
	lock_depth++;
}
static void
hk_mtx_unlock(nni_mtx *m)
{
	(void) m;
	lock_depth--;
}

// ---- allocation ----
static bool fail_alloc;
static void *
hk_zalloc(size_t sz)
{
	if (fail_alloc) {
		fail_alloc = false;
		return (NULL);
	}
	return (nni_zalloc(sz));
}

static void
hk_msg_free(nni_msg *m)
{
	char pre[32];
	int  path = -1;
	for (int i = 0; i < nfa; i++) {
		if (m != NULL && fa[i].msg == m) {
			path = i; // the aio whose message slot holds it
		}
	}
	if (m == NULL) {
		ev("free NULL");
	} else {
		snprintf(pre, sizeof(pre), "free %d", path);
		ev_msg(pre, m);
	}
	nni_msg_free(m);
}

// ---- reaping: device_fini runs after the line has been printed ----
static void *reap_item;
static int   reaps;
static void
hk_reap(nni_reap_list *rl, void *item)
{
	(void) rl;
	ev("reap");
	reaps++;
	if (reap_item != NULL) {
		ev("REAPED-TWICE");
	}
	reap_item = item;
}

// ---- fake sockets ----
struct fsock {
	bool     defined;
	uint16_t proto, peer;
	uint32_t flags;
	nni_msg *rxq[MAXQ];
	int      nrx;
	nni_aio *rwait[MAXA];
	int      nwait;
	bool     closed;
};
static struct fsock fs[MAXS];
// completed receives whose callback has not run
static struct {
	nni_aio *aio;
	nni_msg *msg;
} ready[MAXA];
static int      nready;
static nni_aio *sendpend[MAXA]; // by aio index
static int
sidx(nni_sock *s)
{
	return ((int) ((struct fsock *) s - fs));
}
static uint16_t
hk_sock_peer_id(nni_sock *s)
{
	return (((struct fsock *) s)->peer);
}
static uint16_t
hk_sock_proto_id(nni_sock *s)
{
	return (((struct fsock *) s)->proto);
}
static uint32_t
hk_sock_flags(nni_sock *s)
{
	return (((struct fsock *) s)->flags);
}
static bool
hk_sock_raw(nni_sock *s)
{
	return ((hk_sock_flags(s) & NNI_PROTO_FLAG_RAW) != 0);
}
static void
hk_sock_recv(nni_sock *s, nni_aio *a)
{
	struct fsock *k = (struct fsock *) s;
	ev("recv %d %d", sidx(s), fa_index(a));
	if (k->nrx > 0) {
		ready[nready].msg   = k->rxq[0];
		ready[nready++].aio = a;
		memmove(&k->rxq[0], &k->rxq[1], sizeof(k->rxq[0]) * (size_t) (k->nrx - 1));
		k->nrx--;
	} else {
		k->rwait[k->nwait++] = a;
	}
}
static void
hk_sock_send(nni_sock *s, nni_aio *a)
{
	char pre[48];
	snprintf(pre, sizeof(pre), "send %d %d", sidx(s), fa_index(a));
	ev_msg(pre, fa_find(a)->msg);
	sendpend[fa_index(a)] = a;
}
static void
hk_sock_close_device(nni_sock *s)
{
	ev("close %d", sidx(s));
	if (lock_depth != 0) {
		ev("UNDER-LOCK");
	}
	((struct fsock *) s)->closed = true;
}
static int hold_rv;
static nng_err
hk_sock_device_hold(nni_sock *a, nni_sock *b)
{
	ev("hold %d %d", sidx(a), sidx(b));
	return ((nng_err) hold_rv);
}

#define nni_device ut_device
#define nni_aio_init hk_aio_init
#define nni_aio_fini hk_aio_fini
#define nni_aio_stop hk_aio_stop
#define nni_aio_set_timeout hk_aio_set_timeout
#define nni_aio_result hk_aio_result
#define nni_aio_get_msg hk_aio_get_msg
#define nni_aio_set_msg hk_aio_set_msg
#define nni_aio_reset hk_aio_reset
#define nni_aio_abort hk_aio_abort
#define nni_aio_start hk_aio_start
#define nni_aio_finish_error hk_aio_finish_error
#define nni_mtx_lock hk_mtx_lock
#define nni_mtx_unlock hk_mtx_unlock
#define nni_zalloc hk_zalloc
#define nni_msg_free hk_msg_free
#define nni_reap hk_reap
#define nni_sock_peer_id hk_sock_peer_id
#define nni_sock_proto_id hk_sock_proto_id
#define nni_sock_flags hk_sock_flags
#define nni_sock_raw hk_sock_raw
#define nni_sock_recv hk_sock_recv
#define nni_sock_send hk_sock_send
#define nni_sock_close_device hk_sock_close_device
#define nni_sock_device_hold hk_sock_device_hold
#include "core/device.c"
#undef nni_msg_free
#undef nni_zalloc

// ---- state line ----
static device_data *dev; // the live device_data (NULL: none, or freed)
static bool         gone;

static void
print_line(void)
{
	static char st[512];
	size_t      k = 0;
	if (gone) {
		snprintf(st, sizeof(st), "gone");
	} else if (dev == NULL) {
		snprintf(st, sizeof(st), "none");
	} else if (reap_item == dev) {
		snprintf(st, sizeof(st), "gone");
	} else {
		k += (size_t) snprintf(st + k, sizeof(st) - k, "st=");
		for (int i = 0; i < dev->num_paths; i++) {
			k += (size_t) snprintf(st + k, sizeof(st) - k, "%c", "IRSF"[dev->paths[i].state & 3]);
		}
		k += (size_t) snprintf(st + k, sizeof(st) - k, " run=%d rv=%d user=%d owned=%d dirs=", dev->running, (int) dev->rv,
		    dev->user != NULL, (int) dev->owned);
		for (int i = 0; i < dev->num_paths; i++) {
			k += (size_t) snprintf(st + k, sizeof(st) - k, "%s%d>%d", i ? "," : "", sidx(dev->paths[i].src), sidx(dev->paths[i].dst));
		}
		k += (size_t) snprintf(st + k, sizeof(st) - k, " msg=");
		for (int i = 0; i < dev->num_paths; i++) {
			nni_msg *m = fa_find(&dev->paths[i].aio)->msg;
			char     b[64];
			if (m == NULL) {
				snprintf(b, sizeof(b), "-");
			} else {
				hexs(b, sizeof(b), nni_msg_body(m), nni_msg_len(m) > 24 ? 24 : nni_msg_len(m));
			}
			k += (size_t) snprintf(st + k, sizeof(st) - k, "%s%s", i ? "," : "", b);
		}
	}
	if (lock_depth != 0) {
		ev("LOCK-UNBALANCED %d", lock_depth);
	}
	printf("%s | %s\n", evn ? evb : "-", st);
	evn    = 0;
	evb[0] = 0;
	// deferred reap
	if (reap_item != NULL && dev == reap_item) {
		device_reap.rl_func(reap_item);
		for (int i = 0; i < nfa; i++) {
			if (!fa[i].stopped || !fa[i].finied) {
				printf("PATH-AIO-NOT-FINISHED %d\n", i);
			}
		}
		dev       = NULL;
		gone      = true;
		reap_item = NULL;
		nfa       = 0;
		memset(sendpend, 0, sizeof(sendpend));
		nready = 0;
		for (int s = 0; s < MAXS; s++) {
			fs[s].nwait = 0;
		}
	}
}

static nni_sock *
sock_arg(const char *w)
{
	if (w[0] == '-') {
		return (NULL);
	}
	int k = atoi(w);
	if (k < 0 || k >= MAXS || !fs[k].defined) {
		return (NULL);
	}
	return ((nni_sock *) &fs[k]);
}

static void
do_reset(void)
{
	if (dev != NULL) {
		// let the device finish so that its memory is released
		if (user_cancel != NULL) {
			nni_aio_cancel_fn fn = user_cancel;
			user_cancel          = NULL;
			fn(&user_aio_mem, user_cancel_arg, NNG_ECLOSED);
		}
		for (int round = 0; round < 4 && dev != NULL && reap_item == NULL; round++) {
			for (int i = 0; i < nfa && reap_item == NULL; i++) {
				struct faio *f = &fa[i];
				bool         pending = false;
				for (int s = 0; s < MAXS; s++) {
					for (int w = 0; w < fs[s].nwait; w++) {
						pending = pending || fs[s].rwait[w] == f->aio;
					}
				}
				for (int r = 0; r < nready; r++) {
					pending = pending || ready[r].aio == f->aio;
				}
				if (sendpend[i] != NULL || pending) {
					sendpend[i] = NULL;
					f->result   = NNG_ECLOSED;
					for (int r = 0; r < nready; r++) {
						if (ready[r].aio == f->aio) {
							nni_msg_free(ready[r].msg);
							ready[r].msg = NULL;
							ready[r].aio = NULL;
						}
					}
					for (int s = 0; s < MAXS; s++) {
						for (int w = 0; w < fs[s].nwait; w++) {
							if (fs[s].rwait[w] == f->aio) {
								fs[s].rwait[w] = NULL;
							}
						}
					}
					f->cb(f->arg);
				}
			}
		}
		if (reap_item != NULL) {
			device_reap.rl_func(reap_item);
		}
	}
	for (int s = 0; s < MAXS; s++) {
		for (int i = 0; i < fs[s].nrx; i++) {
			nni_msg_free(fs[s].rxq[i]);
		}
	}
	memset(fs, 0, sizeof(fs));
	memset(sendpend, 0, sizeof(sendpend));
	memset(fa, 0, sizeof(fa));
	nfa = nready = 0;
	dev          = NULL;
	gone         = false;
	reap_item    = NULL;
	reaps        = 0;
	user_cancel  = NULL;
	user_started = user_finished = false;
	fail_alloc = fail_start = false;
	hold_rv                 = 0;
	lock_depth              = 0;
	evn                     = 0;
}

int
main(void)
{
	setvbuf(stdout, NULL, _IOLBF, 0);
	while (next_line()) {
		if (vn == 0) {
			continue;
		}
		const char *op = vw[0];
#define IS(x) (strcmp(op, x) == 0)
		if (IS("reset")) {
			do_reset();
			printf("reset\n");
			continue;
		}
		if (IS("sock") && vn == 5) {
			int k = atoi(vw[1]);
			if (k < 0 || k >= MAXS) {
				printf("bad-op\n");
				continue;
			}
			fs[k].defined = true;
			fs[k].proto   = (uint16_t) strtoul(vw[2], NULL, 16);
			fs[k].peer    = (uint16_t) strtoul(vw[3], NULL, 16);
			fs[k].flags   = (uint32_t) strtoul(vw[4], NULL, 10);
			print_line();
		} else if (IS("device") && vn >= 3) {
			if (dev != NULL || user_started || gone) {
				printf("bad-op\n");
				continue;
			}
			fail_alloc = fail_start = false;
			hold_rv                 = 0;
			for (int i = 3; i < vn; i++) {
				if (strcmp(vw[i], "noalloc") == 0) {
					fail_alloc = true;
				} else if (strcmp(vw[i], "nostart") == 0) {
					fail_start = true;
				} else if (strncmp(vw[i], "hold=", 5) == 0) {
					hold_rv = atoi(vw[i] + 5);
				}
			}
			user_finished = false;
			ut_device(&user_aio_mem, sock_arg(vw[1]), sock_arg(vw[2]));
			fail_alloc = false;
			// the device_data, if one was made, owns the aios registered by device_init
			if (nfa > 0) {
				device_path *p0 = fa[0].arg;
				dev             = p0->d;
			}
			print_line();
		} else if (IS("arrive") && vn == 4) {
			int k = atoi(vw[1]);
			if (k < 0 || k >= MAXS || !fs[k].defined || fs[k].nrx >= MAXQ) {
				printf("bad-op\n");
				continue;
			}
			size_t   hl, bl;
			uint8_t *h = parse_hex(vw[2], &hl);
			uint8_t *b = parse_hex(vw[3], &bl);
			nni_msg *m;
			if (nni_msg_alloc(&m, 0) != 0 || nni_msg_header_append(m, h, hl) != 0 || nni_msg_append(m, b, bl) != 0) {
				abort();
			}
			free(h);
			free(b);
			if (fs[k].nwait > 0) {
				nni_aio *a = fs[k].rwait[0];
				memmove(&fs[k].rwait[0], &fs[k].rwait[1], sizeof(fs[k].rwait[0]) * (size_t) (fs[k].nwait - 1));
				fs[k].nwait--;
				ready[nready].msg   = m;
				ready[nready++].aio = a;
			} else {
				fs[k].rxq[fs[k].nrx++] = m;
			}
			print_line();
		} else if (IS("run") && vn == 2) {
			int i = atoi(vw[1]);
			int r = -1;
			for (int j = 0; j < nready; j++) {
				if (i >= 0 && i < nfa && ready[j].aio == fa[i].aio) {
					r = j;
					break;
				}
			}
			if (r >= 0) {
				fa[i].msg    = ready[r].msg;
				fa[i].result = 0;
				memmove(&ready[r], &ready[r + 1], sizeof(ready[0]) * (size_t) (nready - r - 1));
				nready--;
				fa[i].cb(fa[i].arg);
			}
			print_line();
		} else if (IS("recvfail") && vn == 3) {
			int i = atoi(vw[1]);
			int e = atoi(vw[2]);
			if (i >= 0 && i < nfa && e != 0 && dev != NULL) {
				struct fsock *k = (struct fsock *) dev->paths[i].src;
				for (int w = 0; w < k->nwait; w++) {
					if (k->rwait[w] == fa[i].aio) {
						memmove(&k->rwait[w], &k->rwait[w + 1], sizeof(k->rwait[0]) * (size_t) (k->nwait - w - 1));
						k->nwait--;
						fa[i].result = e;
						fa[i].cb(fa[i].arg);
						break;
					}
				}
			}
			print_line();
		} else if (IS("senddone") && vn == 3) {
			int i  = atoi(vw[1]);
			int rv = atoi(vw[2]);
			if (i >= 0 && i < nfa && sendpend[i] != NULL) {
				sendpend[i]  = NULL;
				fa[i].result = rv;
				if (rv == 0) {
					// the socket consumed the message
					nni_msg_free(fa[i].msg);
					fa[i].msg = NULL;
				}
				fa[i].cb(fa[i].arg);
			}
			print_line();
		} else if (IS("cancel") && vn == 2) {
			int rv = atoi(vw[1]);
			if (rv != 0 && user_cancel != NULL && dev != NULL) {
				// nni_aio_abort: the cancel function is taken once
				nni_aio_cancel_fn fn = user_cancel;
				fn(&user_aio_mem, user_cancel_arg, (nng_err) rv);
			}
			print_line();
		} else {
			printf("bad-op\n");
		}
	}
	do_reset();
	return (0);
}
