// UNIT op interpreter for the WebSocket frame layer (C16).
//
// websocket.c keeps its frame functions static, so this file *includes* the real
// source text (from the tree under test, -I<repo>/src) and drives the real functions:
//   ws_apply_mask, ws_msg_init_control, ws_frame_prep_tx/ws_mask_frame (through
//   ws_str_send + ws_write_cb), ws_read_cb/ws_read_frame_cb/ws_read_finish_* ,
//   ws_close/ws_send_close.
// Only the HTTP byte transport under it is replaced: nni_http_read_full records the
// "exactly n more bytes" request, nni_http_write_full records the bytes written, and the
// interpreter plays the role of http_conn.c's full-read/full-write contract.
// nni_random is replaced by an LCG seeded from the op line so mask keys are reproducible.
// Because this object defines every external symbol of websocket.c, the archive member
// is never pulled in and there are no duplicate definitions.
#include <stdint.h>
#include <stddef.h>

#define nni_http_read_full vf_http_read_full
#define nni_http_write_full vf_http_write_full
#define nni_http_conn_close vf_http_conn_close
#define nni_http_conn_fini vf_http_conn_fini
#define nni_random vf_random

#include "supplemental/websocket/websocket.c"

#include "common.h"

// ---------------------------------------------------------------- fakes
static uint32_t lcg;
uint32_t
vf_random(void)
{
	lcg = lcg * 1664525u + 1013904223u;
	return (lcg);
}

static struct {
	uint8_t *buf;
	size_t   len;
	bool     pending;
} rd;

void
vf_http_read_full(nni_http_conn *c, nng_aio *aio)
{
	unsigned niov;
	nni_iov *iov;
	(void) c;
	nni_aio_get_iov(aio, &niov, &iov);
	rd.buf     = iov[0].iov_buf;
	rd.len     = iov[0].iov_len;
	rd.pending = true;
}

// events of the current op line
static char  *ev;
static size_t evlen, evcap;
static void
ev_put(const char *s, size_t n)
{
	if (evlen + n + 2 > evcap) {
		evcap = (evlen + n + 2) * 2;
		ev    = realloc(ev, evcap);
	}
	memcpy(ev + evlen, s, n);
	evlen += n;
	ev[evlen] = 0;
}
static void
ev_sep(void)
{
	if (evlen) {
		ev_put(",", 1);
	}
}
static void
ev_hex(const uint8_t *b, size_t n)
{
	static const char *hx = "0123456789abcdef";
	char              *t  = malloc(2 * n + 1);
	for (size_t i = 0; i < n; i++) {
		t[2 * i]     = hx[b[i] >> 4];
		t[2 * i + 1] = hx[b[i] & 15];
	}
	ev_put(t, 2 * n);
	free(t);
}
static void
ev_digest(const char *tag, const uint8_t *b, size_t n)
{
	char t[64];
	ev_sep();
	snprintf(t, sizeof(t), "%s:%zu:%016" PRIx64, tag, n, fnv64(b, n));
	ev_put(t, strlen(t));
}

static bool wr_pending;
void
vf_http_write_full(nni_http_conn *c, nng_aio *aio)
{
	unsigned niov;
	nni_iov *iov;
	(void) c;
	nni_aio_get_iov(aio, &niov, &iov);
	ev_sep();
	ev_put("t:", 2);
	for (unsigned i = 0; i < niov; i++) {
		ev_hex(iov[i].iov_buf, iov[i].iov_len);
	}
	wr_pending = true;
}
void
vf_http_conn_close(nng_http *c)
{
	(void) c;
}
void
vf_http_conn_fini(nni_http_conn *c)
{
	(void) c;
}

// ---------------------------------------------------------------- allocator with a size limit
static size_t alloc_limit = (size_t) 1 << 40;
static void *
v_malloc(size_t sz)
{
	return (sz > alloc_limit ? NULL : malloc(sz));
}
static void *
v_calloc(size_t n, size_t sz)
{
	return (n * sz > alloc_limit ? NULL : calloc(n, sz));
}
static void
v_free(void *p, size_t sz)
{
	(void) sz;
	free(p);
}

// ---------------------------------------------------------------- state
static nni_ws  *ws;
static nng_aio *raio, *saio;
static uint8_t *inbuf;
static size_t   inlen, incap;
static uint8_t *strbuf;
static size_t   strbufsz;

static void
post_recv(void)
{
	if (ws->isstream) {
		nng_iov iov;
		iov.iov_buf = strbuf;
		iov.iov_len = strbufsz;
		nng_aio_set_iov(raio, 1, &iov);
	}
	ws_str_recv(ws, raio);
}

// ---------------------------------------------------------------- queue mode (ops qcfg/post/cancel/fini)
// In queue mode no receive is posted by the harness: receives are posted (`post`), cancelled
// (`cancel`) and completed under the control of the op list, and bytes that arrive while the frame
// layer has no read outstanding stay in `inbuf` (the transport's buffer) until the next read.
#define QN 64
static bool     qmode;
static nng_aio *qaio[QN];
static uint8_t *qbuf[QN];
static size_t   qcap[QN];
static bool     qarmed[QN];
static size_t   used; // bytes handed to ws_read_cb so far
static char    *dn;
static size_t   dnlen, dncap;

static void
dn_put(const char *s)
{
	size_t n = strlen(s);
	if (dnlen + n + 2 > dncap) {
		dncap = (dnlen + n + 2) * 2;
		dn    = realloc(dn, dncap);
	}
	if (dnlen) {
		dn[dnlen++] = ',';
	}
	memcpy(dn + dnlen, s, n);
	dnlen += n;
	dn[dnlen] = 0;
}

// report every posted receive that has completed (in id order; an aio completes at most once per op)
static void
q_collect(void)
{
	for (int i = 0; i < QN; i++) {
		char t[96];
		int  rv;
		if (!qarmed[i] || nni_aio_list_active(qaio[i])) {
			continue;
		}
		nng_aio_wait(qaio[i]);
		qarmed[i] = false;
		rv        = nng_aio_result(qaio[i]);
		if (rv != 0) {
			snprintf(t, sizeof(t), "%d:%d", i, rv);
		} else if (ws != NULL && ws->isstream) {
			size_t n = nng_aio_count(qaio[i]);
			snprintf(t, sizeof(t), "%d:0:%zu:%016" PRIx64, i, n, fnv64(qbuf[i], n));
		} else {
			nng_msg *m = nng_aio_get_msg(qaio[i]);
			snprintf(t, sizeof(t), "%d:0:%zu:%016" PRIx64, i, nng_msg_len(m), fnv64(nng_msg_body(m), nng_msg_len(m)));
			nng_aio_set_msg(qaio[i], NULL);
			nng_msg_free(m);
		}
		dn_put(t);
	}
}

static void
q_status(const char *op)
{
	size_t    nq = 0, nw = 0;
	ws_frame *f;
	nng_aio  *a;
	q_collect();
	NNI_LIST_FOREACH (&ws->rxq, f) {
		nq++;
	}
	NNI_LIST_FOREACH (&ws->recvq, a) {
		nw++;
	}
	printf("%s want=%zu closed=%d inmsg=%d ev=%s done=%s used=%zu q=%zu w=%zu\n", op, rd.pending ? rd.len : (size_t) 0,
	    ws->closed ? 1 : 0, ws->inmsg ? 1 : 0, evlen ? ev : "-", dnlen ? dn : "-", used, nq, nw);
	evlen = 0;
	dnlen = 0;
}

static void
pump_writes(void)
{
	while (wr_pending) {
		wr_pending = false;
		ws_write_cb(ws); // the write "completed" (result 0)
	}
}

static bool recv_armed;
static void
collect_recv(void)
{
	while (recv_armed && !nni_aio_list_active(raio)) {
		int rv;
		nng_aio_wait(raio);
		rv = nng_aio_result(raio);
		if (rv == 0) {
			if (ws->isstream) {
				ev_digest("d", strbuf, nng_aio_count(raio));
			} else {
				nng_msg *m = nng_aio_get_msg(raio);
				ev_digest("m", nng_msg_body(m), nng_msg_len(m));
				nng_aio_set_msg(raio, NULL);
				nng_msg_free(m);
			}
			post_recv();
			pump_writes();
		} else {
			char t[32];
			ev_sep();
			snprintf(t, sizeof(t), "e:%d", rv);
			ev_put(t, strlen(t));
			recv_armed = false;
		}
	}
}

static void
feed(const uint8_t *b, size_t n)
{
	if (inlen + n > incap) {
		incap = (inlen + n) * 2 + 64;
		inbuf = realloc(inbuf, incap);
	}
	if (n > 0) {
		memcpy(inbuf + inlen, b, n);
	}
	inlen += n;
	size_t pos = 0;
	while (rd.pending && (inlen - pos) >= rd.len) {
		memcpy(rd.buf, inbuf + pos, rd.len);
		pos += rd.len;
		used += rd.len;
		rd.pending = false;
		ws_read_cb(ws);
		pump_writes();
		collect_recv();
	}
	if (!rd.pending && !qmode) {
		pos = inlen; // nobody reads any more: the bytes are never looked at
	}
	if (inlen > pos && pos > 0) {
		memmove(inbuf, inbuf + pos, inlen - pos);
	}
	inlen -= pos;
}

static void
teardown(void)
{
	if (ws == NULL) {
		return;
	}
	ws_close_error(ws, WS_CLOSE_NORMAL_CLOSE);
	pump_writes();
	nni_aio_abort(&ws->closeaio, NNG_ECANCELED);
	ws_fini(ws);
	ws = NULL;
	for (int i = 0; i < QN; i++) {
		if (qarmed[i]) {
			nng_msg *qm;
			nng_aio_wait(qaio[i]);
			qarmed[i] = false;
			if (nng_aio_result(qaio[i]) == 0 && (qm = nng_aio_get_msg(qaio[i])) != NULL) {
				nng_aio_set_msg(qaio[i], NULL);
				nng_msg_free(qm);
			}
		}
	}
	qmode = false;
	used  = 0;
	dnlen = 0;
	if (recv_armed) {
		nng_aio_wait(raio);
		recv_armed = false;
	}
	nng_msg *m;
	if ((m = nng_aio_get_msg(raio)) != NULL) {
		nng_aio_set_msg(raio, NULL);
		nng_msg_free(m);
	}
	rd.pending = false;
	wr_pending = false;
	inlen      = 0;
	evlen      = 0;
}

static void
status(const char *op)
{
	printf("%s want=%zu closed=%d inmsg=%d ev=%s\n", op, rd.pending ? rd.len : (size_t) 0, ws->closed ? 1 : 0,
	    ws->inmsg ? 1 : 0, evlen ? ev : "-");
	evlen = 0;
}

int
main(void)
{
	nni_alloc_set(v_malloc, v_calloc, v_free);
	if (nng_init(NULL) != 0) {
		fprintf(stderr, "nng_init failed\n");
		return (3);
	}
	nng_aio_alloc(&raio, NULL, NULL);
	nng_aio_alloc(&saio, NULL, NULL);
	nng_aio_set_timeout(raio, NNG_DURATION_INFINITE);
	nng_aio_set_timeout(saio, NNG_DURATION_INFINITE);
	strbufsz = (size_t) 1 << 21;
	strbuf   = malloc(strbufsz);
	for (int i = 0; i < QN; i++) {
		nng_aio_alloc(&qaio[i], NULL, NULL);
		nng_aio_set_timeout(qaio[i], NNG_DURATION_INFINITE);
	}

	while (next_line()) {
		if (vn == 0) {
			continue;
		}
		const char *op = vw[0];
		if (strcmp(op, "reset") == 0) {
			teardown();
			alloc_limit = (size_t) 1 << 40;
			printf("reset\n");
			fflush(stdout);
			continue;
		}
		if (strcmp(op, "verbose") == 0) {
			printf("ok\n");
			continue;
		}
		if ((strcmp(op, "cfg") == 0 || strcmp(op, "qcfg") == 0) && vn == 9) {
			// cfg server isstream recvtext sendtext maxframe recvmax fragsize alloclimit
			teardown();
			if (ws_init(&ws) != 0) {
				printf("cfg enomem\n");
				continue;
			}
			ws->server    = atoi(vw[1]) != 0;
			ws->isstream  = atoi(vw[2]) != 0;
			ws->recv_text = atoi(vw[3]) != 0;
			ws->send_text = atoi(vw[4]) != 0;
			ws->maxframe  = strtoull(vw[5], NULL, 10);
			ws->recvmax   = strtoull(vw[6], NULL, 10);
			ws->fragsize  = strtoull(vw[7], NULL, 10);
			alloc_limit   = strtoull(vw[8], NULL, 10);
			ws->ready     = true;
			nni_aio_set_timeout(&ws->closeaio, 600000); // keep the linger timer out of the way
			lcg        = 0;
			if (op[0] == 'q') {
				// queue mode: nothing is posted, so nothing is read yet
				qmode = true;
				q_status("qcfg");
				continue;
			}
			recv_armed = true;
			post_recv();
			status("cfg");
			continue;
		}
		if (strcmp(op, "mask") == 0 && vn == 4) {
			// mask <key hex8> <offset> <data hex>: ws_apply_mask on an exact-size heap buffer
			size_t   kl, dl, off = strtoull(vw[2], NULL, 10);
			uint8_t *k = parse_hex(vw[1], &kl);
			uint8_t *d = parse_hex(vw[3], &dl);
			uint8_t *b = malloc(off + dl ? off + dl : 1);
			uint8_t  key[4];
			memcpy(key, k, 4);
			memcpy(b + off, d, dl);
			ws_apply_mask(b + off, dl, key);
			printf("mask");
			put_hex("o", b + off, dl);
			printf("\n");
			free(k);
			free(d);
			free(b);
			continue;
		}
		if (ws == NULL) {
			printf("no-ws\n");
			continue;
		}
		if (qmode && strcmp(op, "rx") == 0 && vn == 2) {
			size_t   n;
			uint8_t *b = parse_hex(vw[1], &n);
			feed(b, n);
			free(b);
			q_status("rx");
		} else if (qmode && strcmp(op, "post") == 0 && vn == 3) {
			// post <i> <cap>: ws_str_recv on receive aio i (stream mode: one iov of exactly cap bytes)
			int    i   = atoi(vw[1]);
			size_t cap = strtoull(vw[2], NULL, 10);
			if (i < 0 || i >= QN || qarmed[i]) {
				printf("bad-op\n");
				continue;
			}
			if (ws->isstream) {
				nng_iov iov;
				free(qbuf[i]);
				qbuf[i]     = malloc(cap ? cap : 1);
				qcap[i]     = cap;
				iov.iov_buf = qbuf[i];
				iov.iov_len = cap;
				nng_aio_set_iov(qaio[i], 1, &iov);
			}
			qarmed[i] = true;
			ws_str_recv(ws, qaio[i]);
			feed(NULL, 0); // a read issued now is served from what the transport already holds
			q_status("post");
		} else if (qmode && strcmp(op, "cancel") == 0 && (vn == 2 || vn == 3)) {
			// cancel <i> [rv]: the receive is aborted (timeout = NNG_ETIMEDOUT, nng_aio_cancel = NNG_ECANCELED)
			int i  = atoi(vw[1]);
			int rv = vn == 3 ? atoi(vw[2]) : NNG_ECANCELED;
			if (i < 0 || i >= QN) {
				printf("bad-op\n");
				continue;
			}
			if (qarmed[i]) { // (aborting an idle aio would poison its next start: not a cancellation)
				nng_aio_abort(qaio[i], rv);
			}
			q_status("cancel");
		} else if (qmode && strcmp(op, "close") == 0) {
			ws_close_error(ws, WS_CLOSE_NORMAL_CLOSE);
			pump_writes();
			q_status("close");
		} else if (qmode && strcmp(op, "fini") == 0) {
			// ws_str_free: close, then ws_fini releases the queued frames and fails what still waits;
			// LeakSanitizer (at exit) is the witness that every queued frame was released
			ws_close_error(ws, WS_CLOSE_NORMAL_CLOSE);
			pump_writes();
			nni_aio_abort(&ws->closeaio, NNG_ECANCELED);
			ws_fini(ws);
			ws = NULL;
			q_collect();
			printf("fini ev=%s done=%s\n", evlen ? ev : "-", dnlen ? dn : "-");
			evlen = 0;
			dnlen = 0;
			teardown();
			qmode      = false;
			used       = 0;
			rd.pending = false;
			wr_pending = false;
			inlen      = 0;
		} else if (strcmp(op, "rx") == 0 && vn == 2) {
			size_t   n;
			uint8_t *b = parse_hex(vw[1], &n);
			feed(b, n);
			free(b);
			status("rx");
		} else if (strcmp(op, "send") == 0 && vn == 4) {
			// send <header hex> <body hex> <seed>   (message mode: nng_msg; stream mode: one iov)
			size_t   hn, bn;
			uint8_t *h = parse_hex(vw[1], &hn);
			uint8_t *b = parse_hex(vw[2], &bn);
			lcg        = (uint32_t) strtoul(vw[3], NULL, 10);
			int rv;
			if (ws->isstream) {
				nng_iov iov;
				iov.iov_buf = b;
				iov.iov_len = bn;
				nng_aio_set_iov(saio, 1, &iov);
			} else {
				nng_msg *m;
				nng_msg_alloc(&m, 0);
				nng_msg_header_append(m, h, hn);
				nng_msg_append(m, b, bn);
				nng_aio_set_msg(saio, m);
			}
			ws_str_send(ws, saio);
			pump_writes();
			nng_aio_wait(saio);
			rv = nng_aio_result(saio);
			if (rv != 0 && !ws->isstream) {
				nng_msg *m = nng_aio_get_msg(saio);
				if (m != NULL) {
					nng_aio_set_msg(saio, NULL);
					nng_msg_free(m);
				}
			}
			printf("send rv=%d n=%zu closed=%d ev=%s\n", rv, rv == 0 ? nng_aio_count(saio) : (size_t) 0,
			    ws->closed ? 1 : 0, evlen ? ev : "-");
			evlen = 0;
			free(h);
			free(b);
		} else if (strcmp(op, "ctl") == 0 && vn == 4) {
			// ctl <opcode> <payload hex> <seed>: ws_msg_init_control directly
			size_t    n;
			uint8_t  *b = parse_hex(vw[2], &n);
			ws_frame *f = NULL;
			lcg         = (uint32_t) strtoul(vw[3], NULL, 10);
			int rv      = ws_msg_init_control(&f, ws, (uint8_t) atoi(vw[1]), b, n);
			printf("ctl rv=%d", rv);
			if (rv == 0) {
				printf(" f=");
				for (size_t i = 0; i < f->hlen; i++) {
					printf("%02x", f->head[i]);
				}
				for (size_t i = 0; i < f->len; i++) {
					printf("%02x", f->buf[i]);
				}
				ws_frame_fini(f);
			}
			printf("\n");
			free(b);
		} else if (strcmp(op, "close") == 0) {
			ws_close_error(ws, WS_CLOSE_NORMAL_CLOSE);
			pump_writes();
			collect_recv();
			status("close");
		} else if (strcmp(op, "end") == 0) {
			printf("end closed=%d peer=%d\n", ws->closed ? 1 : 0, ws->peer_closed ? 1 : 0);
		} else {
			printf("bad-op\n");
		}
	}
	teardown();
	fflush(stdout);
	// process exit: leave library threads alone (nng_fini would also be fine)
	nng_aio_free(raio);
	nng_aio_free(saio);
	for (int i = 0; i < QN; i++) {
		nng_aio_free(qaio[i]);
		free(qbuf[i]);
	}
	free(dn);
	free(strbuf);
	free(inbuf);
	free(ev);
	free(vline);
	nng_fini();
	return (0);
}
