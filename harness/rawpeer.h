// REAL executor: a raw peer that speaks SP-over-TCP / SP-over-IPC / socket:// byte for byte.
// The harness is the peer: it chooses where its own writes are cut and sees the exact
// bytes nng emits.  Also: the NNG_VERIF short-I/O clamp schedule (hook_io_clamp.patch) and the
// byte-pattern generator shared with the Lean driver (Driver/SpStream.lean `pat`).
//
// Reused by the C11 / C16 REAL checks.  Everything returns 0 / -1 (errno kept) unless noted;
// all waits are bounded by a timeout in ms and wait on descriptors, never on sleeps.
#ifndef VERIF_RAWPEER_H
#define VERIF_RAWPEER_H
#include <stdbool.h>
#include <stddef.h>
#include <stdint.h>
#include <stdlib.h>
#include <string.h>

// ---- byte patterns -------------------------------------------------------------------
static inline void
rp_pattern(uint64_t seed, size_t len, uint8_t *out)
{
	uint64_t x = seed * 0x9E3779B97F4A7C15ull + 1;
	for (size_t i = 0; i < len; i++) {
		x      = x * 6364136223846793005ull + 1442695040888963407ull;
		out[i] = (uint8_t) (x >> 56);
	}
}

static inline int
rp_hexval(int c)
{
	if (c >= '0' && c <= '9')
		return c - '0';
	if (c >= 'a' && c <= 'f')
		return c - 'a' + 10;
	if (c >= 'A' && c <= 'F')
		return c - 'A' + 10;
	return -1;
}

// "-" | hex | g<seed>:<len>  ->  malloc'd buffer of exactly *lenp bytes (at least 1 allocated)
static inline uint8_t *
rp_parse_bytes(const char *s, size_t *lenp)
{
	uint8_t *b;
	if (strcmp(s, "-") == 0) {
		*lenp = 0;
		return (malloc(1));
	}
	if (s[0] == 'g') {
		char              *e;
		unsigned long long seed = strtoull(s + 1, &e, 10);
		size_t             n    = (*e == ':') ? strtoull(e + 1, NULL, 10) : 0;
		b                       = malloc(n ? n : 1);
		rp_pattern(seed, n, b);
		*lenp = n;
		return (b);
	}
	size_t n = strlen(s) / 2;
	b        = malloc(n ? n : 1);
	for (size_t i = 0; i < n; i++) {
		b[i] = (uint8_t) (rp_hexval(s[2 * i]) * 16 + rp_hexval(s[2 * i + 1]));
	}
	*lenp = n;
	return (b);
}

static inline uint64_t
rp_fnv64(const uint8_t *b, size_t n)
{
	uint64_t h = 0xcbf29ce484222325ull;
	for (size_t i = 0; i < n; i++) {
		h = (h ^ b[i]) * 0x100000001b3ull;
	}
	return (h);
}

// ---- transports ----------------------------------------------------------------------
enum { RP_TCP = 0, RP_IPC = 1, RP_SFD = 2 };
int         rp_kind(const char *name);      // "tcp" | "ipc" | "sfd" -> RP_*, -1
const char *rp_kind_name(int kind);
size_t      rp_headlen(int kind);           // 8, ipc 9

// a listening endpoint owned by the peer; url is what nng must dial
typedef struct {
	int  fd;
	int  kind;
	char url[160];
	char path[128]; // ipc: file to unlink
} rp_listener;

int  rp_listen(rp_listener *l, int kind, const char *tmpdir, unsigned tag); // tcp: 127.0.0.1:ephemeral
int  rp_accept(rp_listener *l, int timeout_ms);                              // -> connected fd or -1
void rp_listener_close(rp_listener *l);
int  rp_connect(const char *url, int timeout_ms); // "tcp://127.0.0.1:port" | "ipc:///path" -> fd
int  rp_socketpair(int fds[2]);                   // AF_UNIX stream pair (both non-blocking capable)
void rp_close(int fd);

// ---- byte-level I/O ------------------------------------------------------------------
// write all of buf; returns 0, -1 on error/timeout
int rp_write_all(int fd, const uint8_t *buf, size_t len, int timeout_ms);
// read exactly len bytes in reads of at most `step` bytes (0: as much as possible);
// returns 0, -1 on error, -2 on orderly EOF before len bytes, -3 timeout
int rp_read_exact(int fd, uint8_t *buf, size_t len, size_t step, int timeout_ms);
// true when the peer closed (EOF or reset) within timeout
bool rp_wait_closed(int fd, int timeout_ms);

// ---- SP layer ------------------------------------------------------------------------
void rp_handshake_bytes(uint16_t proto, uint8_t out[8]);
// send ours (cut after `cut` bytes when 0 < cut < 8), read theirs; returns 0 and *peer, or -1;
// theirs[8] receives the raw bytes read
int rp_handshake(int fd, uint16_t proto, unsigned cut, uint16_t *peer, uint8_t theirs[8], int timeout_ms);
// frame = [0x01 (ipc)] be64(len) payload ; returns malloc'd frame and its length
uint8_t *rp_frame(int kind, const uint8_t *hdr, size_t hlen, const uint8_t *body, size_t blen, size_t *flen);
// read one frame as nng wrote it: *payload malloc'd (len *plen); the raw header bytes are
// kept in rawhead (9 bytes room).  Returns 0, <0 as rp_read_exact, -4 bad message type, -5 oversize
int rp_read_frame(int fd, int kind, size_t step, size_t maxlen, uint8_t **payload, size_t *plen,
    uint8_t rawhead[9], int timeout_ms);

// ---- the NNG_VERIF short-I/O clamp (see integration/fixes/hook_io_clamp.patch) ---------
// Installs the clamp with a seeded schedule.  `palette` are the clamp sizes (bytes) to draw
// from, `pass_permille` the share of calls left unclamped.  n == 0 uninstalls the schedule
// (the hook then only observes).
bool rp_clamp_available(void); // false: the tree under test has no hook
void rp_clamp_install(uint64_t seed, const size_t *palette, size_t n, unsigned pass_permille);
void rp_clamp_observe_only(void);
void rp_clamp_remove(void);
typedef struct {
	uint64_t rd_calls, rd_fired, wr_calls, wr_fired;
} rp_clamp_stats;
void rp_clamp_get(rp_clamp_stats *st, bool reset);
// the request size of the most recent read attempt inside nng (what the receive path still
// wants), and a counter of read attempts; used to confirm that nng consumed a piece
size_t   rp_clamp_last_read_total(void);
uint64_t rp_clamp_read_calls(void);
// wait until nng asks for exactly `total` bytes in a read attempt made after `since_calls`;
// returns true when seen
bool rp_wait_read_request(size_t total, uint64_t since_calls, int timeout_ms);

#endif
