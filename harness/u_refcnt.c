// UNIT harness for src/core/refcnt.c (C10 / C03): the real nni_refcnt_init / nni_refcnt_hold / nni_refcnt_rele on a
// static object whose finaliser only counts its calls.  The thread argument of hold / rele is ghost (who owns the
// reference); each call is one atomic operation, so a sequence of calls is an interleaving of the threads.
//   init <own0,own1,...>   nni_refcnt_init(value = sum)
//   hold <t> | rele <t>
// observation: cnt=<rc_cnt> finis=<calls of rc_fini>
#include "core/nng_impl.h"
#include "core/refcnt.h"

#include "common.h"

static nni_refcnt rc;
static int        finis;
static int        inited;

static void
obj_fini(void *arg)
{
	(void) arg;
	finis++;
}

int
main(void)
{
	setvbuf(stdout, NULL, _IOFBF, 1 << 16);
	while (next_line()) {
		if (vn == 0) {
			continue;
		}
		if (strcmp(vw[0], "reset") == 0) {
			inited = 0;
			printf("reset\n");
			continue;
		}
		if (strcmp(vw[0], "init") == 0 && vn == 2) {
			unsigned sum = 0;
			char    *w, *save = NULL;
			for (w = strtok_r(vw[1], ",", &save); w != NULL; w = strtok_r(NULL, ",", &save)) {
				sum += (unsigned) strtoul(w, NULL, 10);
			}
			finis = 0;
			nni_refcnt_init(&rc, sum, &rc, obj_fini);
			inited = 1;
		} else if (inited && strcmp(vw[0], "hold") == 0 && vn == 2) {
			nni_refcnt_hold(&rc);
		} else if (inited && strcmp(vw[0], "rele") == 0 && vn == 2) {
			nni_refcnt_rele(&rc);
		} else {
			printf("bad-op\n");
			continue;
		}
		printf("cnt=%d finis=%d\n", nni_atomic_get(&rc.rc_cnt), finis);
	}
	fflush(stdout);
	return (0);
}
