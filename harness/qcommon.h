// shared by the C18 harnesses: tagged message tracking and allocation-failure injection
#ifndef VERIF_QCOMMON_H
#define VERIF_QCOMMON_H
#include "core/nng_impl.h"

#include "common.h"

#define MAXT 8192
static nng_msg *trk[MAXT]; // our extra reference on every live tagged message
static uint8_t  tst[MAXT]; // 0 = not live, 1 = handed to the queue, 2 = held by the harness/aio

static int fail_in = -1; // fail the allocation when this reaches 0
static bool
should_fail(void)
{
	if (fail_in == 0) {
		fail_in = -1;
		return (true);
	}
	if (fail_in > 0) {
		fail_in--;
	}
	return (false);
}
static void *
v_malloc(size_t sz)
{
	return (should_fail() ? NULL : malloc(sz));
}
static void *
v_calloc(size_t n, size_t sz)
{
	return (should_fail() ? NULL : calloc(n, sz));
}
static void
v_free(void *p, size_t sz)
{
	(void) sz;
	free(p);
}

// a fresh message whose 4-byte body is the tag; we keep a second reference so that a message
// freed by the queue stays readable and "freed by the queue" is observable (no longer shared)
static nng_msg *
mk_msg(unsigned tag)
{
	nng_msg *m;
	if (tag >= MAXT || tst[tag] != 0 || nni_msg_alloc(&m, 4) != 0) {
		return (NULL);
	}
	uint8_t *b = nni_msg_body(m);
	b[0] = (uint8_t) (tag >> 24);
	b[1] = (uint8_t) (tag >> 16);
	b[2] = (uint8_t) (tag >> 8);
	b[3] = (uint8_t) tag;
	nni_msg_clone(m);
	trk[tag] = m;
	tst[tag] = 2;
	return (m);
}

// both references of a message that is in the harness's hands
static void
drop_msg(unsigned tag)
{
	nni_msg_free(trk[tag]);
	nni_msg_free(trk[tag]);
	trk[tag] = NULL;
	tst[tag] = 0;
}

// identify a message the queue handed out: prints its tag, or BAD/DUP/CORRUPT
static void
put_delivered(nng_msg *m)
{
	if (m == NULL) {
		printf("NULL");
		return;
	}
	for (unsigned t = 0; t < MAXT; t++) {
		if (trk[t] == m) {
			uint8_t *b = nni_msg_body(m);
			unsigned v = nni_msg_len(m) == 4 ? ((unsigned) b[0] << 24 | b[1] << 16 | b[2] << 8 | b[3]) : ~0u;
			if (v != t || nni_msg_header_len(m) != 0) {
				printf("CORRUPT%u", t);
			} else if (tst[t] != 1) {
				printf("DUP%u", t);
				return;
			} else {
				printf("%u", t);
			}
			drop_msg(t);
			return;
		}
	}
	printf("BAD");
}

// messages handed to the queue that only we still reference: the queue freed them
static void
put_freed(void)
{
	bool any = false;
	printf(" freed=");
	for (unsigned t = 0; t < MAXT; t++) {
		if (tst[t] == 1 && !nni_msg_shared(trk[t])) {
			printf("%s%u", any ? "," : "", t);
			any = true;
			nni_msg_free(trk[t]);
			trk[t] = NULL;
			tst[t] = 0;
		}
	}
	if (!any) {
		printf("-");
	}
}

// end of a case: the queue is gone; everything it held must have been released
static void
drop_all(void)
{
	for (unsigned t = 0; t < MAXT; t++) {
		if (tst[t] != 0) {
			if (nni_msg_shared(trk[t]) && tst[t] == 2) {
				nni_msg_free(trk[t]);
			}
			nni_msg_free(trk[t]);
			trk[t] = NULL;
			tst[t] = 0;
		}
	}
}
#endif
