// accounting allocator installed through nng_init_params: live-block table with sizes,
// size-matched free check, optional "fail the k-th allocation from now".
#ifndef VALLOC_H
#define VALLOC_H
#include <stddef.h>
void *valloc_malloc(size_t);
void *valloc_calloc(size_t, size_t);
void  valloc_free(void *, size_t);
void  valloc_stats(unsigned long *live, unsigned long *bytes, unsigned long *badfree, unsigned long *total);
void  valloc_fail_at(long k); // k >= 1: the k-th allocation from now returns NULL (one shot); 0: off
unsigned long valloc_failures_fired(void);
void  valloc_reset_counters(void);
void  valloc_dump_live(void); // with env VALLOC_LEAKS=1: allocation backtraces of the blocks still held
#endif
