// UNIT op interpreter for nni_lmq (C18): the real nni_lmq_* with real tagged messages.
#include "qcommon.h"

static nni_lmq q;
static bool    have;

static void
tail(void)
{
	printf(" len=%zu cap=%zu g=%zu p=%zu al=%zu\n", nni_lmq_len(&q), nni_lmq_cap(&q), q.lmq_get, q.lmq_put,
	    q.lmq_alloc);
}

int
main(void)
{
	nni_alloc_set(v_malloc, v_calloc, v_free);
	while (next_line()) {
		if (vn == 0) {
			continue;
		}
		if (strcmp(vw[0], "reset") == 0) {
			if (have) {
				nni_lmq_fini(&q);
				have = false;
			}
			drop_all();
			fail_in = -1;
			printf("reset\n");
			fflush(stdout);
			continue;
		}
		if (strcmp(vw[0], "verbose") == 0) {
			printf("ok\n");
			continue;
		}
		if (strcmp(vw[0], "fail") == 0) {
			fail_in = 0;
			printf("ok\n");
			continue;
		}
		if (strcmp(vw[0], "init") == 0 && vn == 2) {
			if (have) {
				nni_lmq_fini(&q);
				drop_all();
			}
			nni_lmq_init(&q, strtoull(vw[1], NULL, 10));
			have = true;
			printf("0 m=- freed=-");
			tail();
		} else if (!have) {
			printf("bad-op\n");
		} else if (strcmp(vw[0], "put") == 0 && vn == 2) {
			unsigned tag = (unsigned) strtoul(vw[1], NULL, 10);
			nng_msg *m   = mk_msg(tag);
			if (m == NULL) {
				printf("bad-op\n");
				continue;
			}
			int rv = nni_lmq_put(&q, m);
			if (rv == 0) {
				tst[tag] = 1;
			} else {
				drop_msg(tag);
			}
			printf("%d m=- freed=-", rv);
			tail();
		} else if (strcmp(vw[0], "get") == 0) {
			nng_msg *m  = NULL;
			int      rv = nni_lmq_get(&q, &m);
			printf("%d m=", rv);
			if (rv == 0) {
				put_delivered(m);
			} else {
				printf("-");
			}
			printf(" freed=-");
			tail();
		} else if (strcmp(vw[0], "flush") == 0) {
			nni_lmq_flush(&q);
			printf("0 m=-");
			put_freed();
			tail();
		} else if (strcmp(vw[0], "resize") == 0 && vn == 2) {
			int rv = nni_lmq_resize(&q, strtoull(vw[1], NULL, 10));
			printf("%d m=-", rv);
			put_freed();
			tail();
		} else {
			printf("bad-op\n");
		}
		fail_in = -1;
	}
	if (have) {
		nni_lmq_fini(&q);
	}
	drop_all();
	return (0);
}
