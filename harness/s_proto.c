// SIM op interpreter for SP protocol sockets: one socket under test, driven through
// the public API on one side and through the mock transport on the other.  One
// output line per input line: all events that happened until the library quiesced.
#include <nng/nng.h>
#include <poll.h>

#include "common.h"
#include "simev.h"
#include "valloc.h"

#define NAIO 16
#define NCTX 8

static nng_socket sock;
static bool       sock_open;
static nng_aio   *aios[NAIO];
static int        aio_kind[NAIO]; // 0 idle, 1 send, 2 recv
static nng_ctx    ctxs[NCTX];
static bool       ctx_open[NCTX];
static int        nlisten;

struct proto {
	const char *name;
	int (*open)(nng_socket *);
	int (*open_raw)(nng_socket *);
};
static struct proto protos[] = {
	{ "push", nng_push0_open, nng_push0_open_raw },
	{ "pull", nng_pull0_open, nng_pull0_open_raw },
	{ "pub", nng_pub0_open, nng_pub0_open_raw },
	{ "sub", nng_sub0_open, nng_sub0_open_raw },
	{ "req", nng_req0_open, nng_req0_open_raw },
	{ "rep", nng_rep0_open, nng_rep0_open_raw },
	{ "pair0", nng_pair0_open, nng_pair0_open_raw },
	{ "pair1", nng_pair1_open, nng_pair1_open_raw },
	{ "pair1poly", nng_pair1_open_poly, nng_pair1_open_poly },
	{ "bus", nng_bus0_open, nng_bus0_open_raw },
	{ "surveyor", nng_surveyor0_open, nng_surveyor0_open_raw },
	{ "respondent", nng_respondent0_open, nng_respondent0_open_raw },
	{ NULL, NULL, NULL },
};

// what each send aio submitted (header + body), to check that a FAILED send hands back exactly that
static bool     sock_raw; // the socket under test was opened in raw mode
static uint8_t *sub_copy[16];
static size_t   sub_hlen[16], sub_blen[16];

static void
sub_remember(int a, nng_msg *m)
{
	if (a < 0 || a >= 16) {
		return;
	}
	free(sub_copy[a]);
	sub_hlen[a] = nng_msg_header_len(m);
	sub_blen[a] = nng_msg_len(m);
	sub_copy[a] = malloc(sub_hlen[a] + sub_blen[a] + 1);
	memcpy(sub_copy[a], nng_msg_header(m), sub_hlen[a]);
	memcpy(sub_copy[a] + sub_hlen[a], nng_msg_body(m), sub_blen[a]);
}

static void
sub_check_back(int a, nng_msg *m)
{
	if (a < 0 || a >= 16 || sub_copy[a] == NULL) {
		return;
	}
	// the body always; the header only on a raw socket (there it is the caller's data; a cooked socket writes
	// its own protocol header into the message as soon as the send is submitted)
	bool hdr_bad = sock_raw && (nng_msg_header_len(m) != sub_hlen[a] || memcmp(nng_msg_header(m), sub_copy[a], sub_hlen[a]) != 0);
	if (hdr_bad || nng_msg_len(m) != sub_blen[a] || memcmp(nng_msg_body(m), sub_copy[a] + sub_hlen[a], sub_blen[a]) != 0) {
		ev_add("ALTERED %d hdr %zu->%zu body %zu->%zu", a, sub_hlen[a], nng_msg_header_len(m), sub_blen[a], nng_msg_len(m));
	}
}

static void
aio_cb(void *arg)
{
	int      i  = (int) (intptr_t) arg;
	nng_aio *a  = aios[i];
	int      rv = nng_aio_result(a);
	nng_msg *m  = nng_aio_get_msg(a);
	char     pre[48];
	if (aio_kind[i] == 2 && rv == 0 && m != NULL) {
		snprintf(pre, sizeof(pre), "done %d 0 pipe=%d", i, 0);
		snprintf(pre, sizeof(pre), "done %d 0", i);
		ev_add_msg(pre, nng_msg_header(m), nng_msg_header_len(m), nng_msg_body(m), nng_msg_len(m));
		nng_msg_free(m);
		nng_aio_set_msg(a, NULL);
	} else {
		if (aio_kind[i] == 1 && rv != 0 && m != NULL) {
			// failed send: the message is still ours
			ev_add("done %d %d msgback", i, rv);
			sub_check_back(i, m);
			nng_msg_free(m);
			nng_aio_set_msg(a, NULL);
		} else if (aio_kind[i] == 1 && rv == 0 && m != NULL) {
			ev_add("done %d 0 MSG-STILL-ATTACHED", i);
		} else {
			ev_add("done %d %d", i, rv);
		}
	}
	aio_kind[i] = 0;
}

// header word of `send`: hex, or `@<p>[+<hex>]` = the 4-byte (big-endian) id of mock
// pipe <p> (0 when it no longer exists) followed by optional further header bytes
static uint8_t *
parse_hdr(const char *s, size_t *lenp)
{
	if (s[0] != '@') {
		return (parse_hex(s, lenp));
	}
	int         pi   = atoi(s + 1);
	uint32_t    id   = (pi >= 0 && pi < 64) ? mock_pipe_id(pi) : 0;
	const char *plus = strchr(s, '+');
	size_t      xl   = 0;
	uint8_t    *x    = plus != NULL ? parse_hex(plus + 1, &xl) : NULL;
	uint8_t    *h    = malloc(4 + xl);
	h[0]             = (uint8_t) (id >> 24);
	h[1]             = (uint8_t) (id >> 16);
	h[2]             = (uint8_t) (id >> 8);
	h[3]             = (uint8_t) id;
	if (x != NULL) {
		memcpy(h + 4, x, xl);
		free(x);
	}
	*lenp = 4 + xl;
	return (h);
}

static nng_duration
parse_mode(const char *s)
{
	if (strcmp(s, "inf") == 0) {
		return (NNG_DURATION_INFINITE);
	}
	if (strcmp(s, "def") == 0) {
		return (NNG_DURATION_DEFAULT);
	}
	return (atoi(s));
}

static bool poll_have; // descriptors fetched since `open`
static int  poll_rfd = -1, poll_wfd = -1, poll_rrv, poll_wrv;

static void
do_close(void)
{
	poll_have = false;
	for (int i = 0; i < NCTX; i++) {
		if (ctx_open[i]) {
			nng_ctx_close(ctxs[i]);
			ctx_open[i] = false;
		}
	}
	if (sock_open) {
		nng_socket_close(sock);
		sock_open = false;
	}
}

static bool no_quiesce; // set by the `nq` line prefix: do not wait for the library to quiesce

static void
finish_line(void)
{
	if (!no_quiesce) {
		sim_quiesce();
	}
	ev_flush();
}

static void
lib_init(void)
{
	nng_init_params ip;
	memset(&ip, 0, sizeof(ip));
	ip.malloc_fn = valloc_malloc;
	ip.calloc_fn = valloc_calloc;
	ip.free_fn   = valloc_free;
	nng_init(&ip);
	mock_register();
}

// close everything, stop the library and report what the accounting allocator still holds
static void
lib_fini(bool report)
{
	unsigned long live, bytes, bad, tot;
	do_close();
	sim_quiesce();
	for (int i = 0; i < NAIO; i++) {
		nng_aio_stop(aios[i]);
		nng_aio_free(aios[i]);
		aios[i]     = NULL;
		aio_kind[i] = 0;
	}
	sim_quiesce();
	nng_fini();
	sim_reset_mutex_table();
	valloc_stats(&live, &bytes, &bad, &tot);
	if (report) {
		printf("fini live=%lu bytes=%lu badfree=%lu\n", live, bytes, bad);
	}
	valloc_reset_counters();
	ev_clear();
	mock_reset();
	nlisten = 0;
}

// statistics snapshot walk (op `stats`): visit every node, read every accessor
static unsigned
stat_walk(const nng_stat *st)
{
	unsigned n = 0;
	for (; st != NULL; st = nng_stat_next(st)) {
		volatile uint64_t sink = 0;
		const char       *s;
		n++;
		sink += strlen(nng_stat_name(st));
		sink += strlen(nng_stat_desc(st));
		sink += (uint64_t) nng_stat_unit(st) + nng_stat_timestamp(st);
		switch (nng_stat_type(st)) {
		case NNG_STAT_STRING:
			s = nng_stat_string(st);
			sink += s != NULL ? strlen(s) : 0;
			break;
		case NNG_STAT_BOOLEAN:
			sink += nng_stat_bool(st) ? 1 : 0;
			break;
		default:
			sink += nng_stat_value(st);
			break;
		}
		n += stat_walk(nng_stat_child(st));
	}
	return (n);
}

#include <signal.h>
#include <unistd.h>
// watchdog: one harness line never needs more than a few milliseconds of CPU; if a line
// takes a minute of wall time the library is stuck (live-lock or an undetected wait)
static void
on_alarm(int sig)
{
	(void) sig;
	static const char msg[] = "HANG\n";
	fflush(stdout);
	(void) !write(1, msg, sizeof(msg) - 1);
	_exit(4);
}

int
main(void)
{
	setvbuf(stdout, NULL, _IOLBF, 0);
	signal(SIGALRM, on_alarm);
	lib_init();
	for (int i = 0; i < NAIO; i++) {
		nng_aio_alloc(&aios[i], aio_cb, (void *) (intptr_t) i);
	}
	while (next_line()) {
		if (vn == 0) {
			continue;
		}
		alarm(90);
		// `nq <op ...>`: run the operation but leave its callbacks pending (they run
		// concurrently with the following lines; events are printed when they happen)
		no_quiesce = false;
		if (strcmp(vw[0], "nq") == 0 && vn >= 2) {
			no_quiesce = true;
			vn--;
			memmove(&vw[0], &vw[1], sizeof(vw[0]) * (size_t) vn);
		}
		const char *op = vw[0];
#define IS(s) (strcmp(op, s) == 0)
		if (IS("delay") && vn == 3) {
			// delay <offset> <len>: suspend whichever thread runs at scheduler step
			// now+offset for len steps (delay-bounded schedule exploration)
			sim_arm_delay(atoi(vw[1]), atoi(vw[2]));
			printf("ok\n");
			continue;
		}
		if (IS("reset") || IS("fini")) {
			// `fini`: like reset, but reports the allocator balance after nng_fini
			lib_fini(IS("fini"));
			lib_init();
			for (int i = 0; i < NAIO; i++) {
				nng_aio_alloc(&aios[i], aio_cb, (void *) (intptr_t) i);
			}
			if (IS("reset")) {
				printf("reset\n");
			}
			continue;
		}
		if (IS("failalloc") && vn == 2) {
			// the k-th allocation the library makes from now on fails (one shot; 0 = off)
			valloc_fail_at(atol(vw[1]));
			printf("ok\n");
			continue;
		}
		if (IS("allocstat")) {
			unsigned long live, bytes, bad, tot;
			valloc_stats(&live, &bytes, &bad, &tot);
			printf("allocs total=%lu fired=%lu\n", tot, valloc_failures_fired());
			continue;
		}
		if (IS("stats")) {
			// statistics snapshot: nng_stats_get, walk the whole tree, nng_stats_free
			nng_stat *st = NULL;
			int       rv = nng_stats_get(&st);
			unsigned  n  = 0;
			if (rv == 0) {
				n = stat_walk(st);
				nng_stats_free(st);
			}
			printf("stats %d %u\n", rv, n);
			continue;
		}
		if (IS("sched") && vn >= 2) {
			// sched <seed> [delay_offset delay_len]
			sim_seed(strtoull(vw[1], NULL, 10));
			sim_seed_user(0x1234567 + strtoull(vw[1], NULL, 10) * 0); // ids do not depend on the schedule
			printf("ok\n");
			continue;
		}
		if (IS("reseed") && vn == 2) {
			// reseed <n>: restart the stream behind nni_random (randomised id maps pick
			// their start lazily, so ids allocated from here on are reproducible)
			sim_seed_user(strtoull(vw[1], NULL, 10));
			printf("ok\n");
			continue;
		}
		if (IS("open") && vn >= 2) {
			int rv = NNG_ENOTSUP;
			for (struct proto *p = protos; p->name; p++) {
				if (strcmp(p->name, vw[1]) == 0) {
					rv = (vn >= 3 && strcmp(vw[2], "raw") == 0) ? p->open_raw(&sock) : p->open(&sock);
				}
			}
			sock_open = rv == 0;
			sock_raw  = (vn >= 3 && strcmp(vw[2], "raw") == 0);
			poll_have = false;
			if (rv == 0) {
				rv = nng_listen(sock, "gopher://sut", NULL, 0);
				nlisten++;
			}
			ev_add("rv %d", rv);
			finish_line();
			continue;
		}
		if (IS("sendp") && vn == 7) {
			// sendp <ctx|-> <aio> <p> <hdrhex> <bodyhex> <mode>: `send` whose header is the
			// library's id of mock pipe <p> (big endian) followed by <hdrhex>
			static char hb[2 * 256 + 16];
			snprintf(hb, sizeof(hb), "%08x%s", (unsigned) mock_pipe_id(atoi(vw[3])), strcmp(vw[4], "-") == 0 ? "" : vw[4]);
			vw[3] = hb;
			vw[4] = vw[5];
			vw[5] = vw[6];
			vn    = 6;
			op    = "send";
		}
		if (!sock_open && !IS("advance")) {
			printf("nosock\n");
			continue;
		}
		if (IS("pipe_add") && vn >= 2) {
			// pipe_add <peer-proto-hex>: a peer connects to the listener
			uint16_t peer = (uint16_t) strtoul(vw[1], NULL, 16);
			int      p    = mock_conn_done(0, peer, 0);
			ev_add("pipe %d", p);
			finish_line();
		} else if (IS("pipe_id") && vn == 2) {
			// the core's 32-bit id of pipe <p> (random start; canonicalised by the Python side)
			ev_add("rv 0 %u", (unsigned) mock_pipe_id(atoi(vw[1])));
			finish_line();
		} else if (IS("pipe_drop") && vn == 2) {
			ev_add("rv %d", mock_pipe_lose(atoi(vw[1])));
			finish_line();
		} else if (IS("recv_done") && vn == 3) {
			// recv_done <p> <hex|!err>: the transport delivers a message (all bytes in the body)
			int p = atoi(vw[1]);
			int r;
			if (vw[2][0] == '!') {
				r = mock_recv_done(p, NULL, NULL, 0, atoi(vw[2] + 1));
			} else {
				size_t   len;
				uint8_t *d = parse_hex(vw[2], &len);
				r          = mock_recv_done(p, NULL, d, len, 0);
				free(d);
			}
			ev_add("rv %d", r);
			finish_line();
		} else if (IS("send_done") && vn == 3) {
			ev_add("rv %d", mock_send_done(atoi(vw[1]), atoi(vw[2])));
			finish_line();
		} else if (IS("send") && vn == 6) {
			// send <ctx|-> <aio> <hdrhex> <bodyhex> <nb|inf|ms>
			int      a = atoi(vw[2]);
			size_t   hl, bl;
			uint8_t *h = parse_hdr(vw[3], &hl);
			uint8_t *b = parse_hex(vw[4], &bl);
			nng_msg *m;
			if (aio_kind[a] != 0) {
				printf("aio-busy\n");
				free(h);
				free(b);
				continue;
			}
			if (nng_msg_alloc(&m, 0) != 0) {
				// the injected allocation failure hit the harness's own message
				free(h);
				free(b);
				printf("harness-enomem\n");
				continue;
			}
			if (nng_msg_header_append(m, h, hl) != 0 || nng_msg_append(m, b, bl) != 0) {
				nng_msg_free(m);
				free(h);
				free(b);
				printf("harness-enomem\n");
				continue;
			}
			free(h);
			free(b);
			sub_remember(a, m);
			if (strcmp(vw[5], "nb") == 0) {
				unsigned long j0, j1, ms0, ms1;
				int           rv;
				sim_jumps(&j0, &ms0);
				sim_jump_slack(1); // a blocked non-blocking call must get past its deadline
				if (vw[1][0] == '-') {
					rv = nng_sendmsg(sock, m, NNG_FLAG_NONBLOCK);
				} else {
					rv = nng_ctx_sendmsg(ctxs[atoi(vw[1])], m, NNG_FLAG_NONBLOCK);
				}
				sim_jump_slack(0);
				sim_jumps(&j1, &ms1);
				if (rv != 0) {
					ev_add("done %d %d msgback", a, rv);
					sub_check_back(a, m);
					nng_msg_free(m);
				} else {
					ev_add("done %d 0", a);
				}
				if (ms1 != ms0) {
					ev_add("BLOCKED %lu", ms1 - ms0);
				}
			} else {
				aio_kind[a] = 1;
				nng_aio_set_timeout(aios[a], parse_mode(vw[5]));
				nng_aio_set_msg(aios[a], m);
				if (vw[1][0] == '-') {
					nng_socket_send(sock, aios[a]);
				} else {
					nng_ctx_send(ctxs[atoi(vw[1])], aios[a]);
				}
			}
			finish_line();
		} else if (IS("recv") && vn == 4) {
			// recv <ctx|-> <aio> <nb|inf|ms>
			int a = atoi(vw[2]);
			if (aio_kind[a] != 0) {
				printf("aio-busy\n");
				continue;
			}
			if (strcmp(vw[3], "nb") == 0) {
				unsigned long j0, j1, ms0, ms1;
				int           rv;
				nng_msg      *m = NULL;
				sim_jumps(&j0, &ms0);
				sim_jump_slack(1); // a blocked non-blocking call must get past its deadline
				if (vw[1][0] == '-') {
					rv = nng_recvmsg(sock, &m, NNG_FLAG_NONBLOCK);
				} else {
					rv = nng_ctx_recvmsg(ctxs[atoi(vw[1])], &m, NNG_FLAG_NONBLOCK);
				}
				sim_jump_slack(0);
				sim_jumps(&j1, &ms1);
				if (rv == 0) {
					char pre[32];
					snprintf(pre, sizeof(pre), "done %d 0", a);
					ev_add_msg(pre, nng_msg_header(m), nng_msg_header_len(m), nng_msg_body(m), nng_msg_len(m));
					nng_msg_free(m);
				} else {
					ev_add("done %d %d", a, rv);
				}
				if (ms1 != ms0) {
					ev_add("BLOCKED %lu", ms1 - ms0);
				}
			} else {
				aio_kind[a] = 2;
				nng_aio_set_timeout(aios[a], parse_mode(vw[3]));
				if (vw[1][0] == '-') {
					nng_socket_recv(sock, aios[a]);
				} else {
					nng_ctx_recv(ctxs[atoi(vw[1])], aios[a]);
				}
			}
			finish_line();
		} else if (IS("cancel") && vn == 2) {
			nng_aio_cancel(aios[atoi(vw[1])]);
			finish_line();
		} else if (IS("abort") && vn == 3) {
			nng_aio_abort(aios[atoi(vw[1])], atoi(vw[2]));
			finish_line();
		} else if (IS("advance") && vn == 2) {
			sim_advance(atoi(vw[1]));
			ev_flush();
		} else if (IS("ctx_open") && vn == 2) {
			int c  = atoi(vw[1]);
			int rv = nng_ctx_open(&ctxs[c], sock);
			ctx_open[c] = rv == 0;
			ev_add("rv %d", rv);
			finish_line();
		} else if (IS("ctx_close") && vn == 2) {
			int c = atoi(vw[1]);
			int rv = ctx_open[c] ? nng_ctx_close(ctxs[c]) : -1;
			ctx_open[c] = false;
			ev_add("rv %d", rv);
			finish_line();
		} else if (IS("setopt") && vn == 5) {
			// setopt <ctx|-> <name> <int|ms|bool|size> <val>
			int         rv;
			const char *n = vw[2];
			long long   v = strtoll(vw[4], NULL, 10);
			if (vw[1][0] == '-') {
				rv = strcmp(vw[3], "int") == 0 ? nng_socket_set_int(sock, n, (int) v)
				    : strcmp(vw[3], "ms") == 0 ? nng_socket_set_ms(sock, n, (nng_duration) v)
				    : strcmp(vw[3], "bool") == 0 ? nng_socket_set_bool(sock, n, v != 0)
				                                 : nng_socket_set_size(sock, n, (size_t) v);
			} else {
				nng_ctx c = ctxs[atoi(vw[1])];
				rv = strcmp(vw[3], "int") == 0 ? nng_ctx_set_int(c, n, (int) v)
				    : strcmp(vw[3], "ms") == 0 ? nng_ctx_set_ms(c, n, (nng_duration) v)
				    : strcmp(vw[3], "bool") == 0 ? nng_ctx_set_bool(c, n, v != 0)
				                                 : nng_ctx_set_size(c, n, (size_t) v);
			}
			ev_add("rv %d", rv);
			finish_line();
		} else if (IS("getopt") && vn == 4) {
			int         rv;
			const char *n = vw[2];
			int         iv = 0;
			nng_duration dv = 0;
			bool        bv = false;
			if (strcmp(vw[3], "int") == 0) {
				rv = vw[1][0] == '-' ? nng_socket_get_int(sock, n, &iv) : nng_ctx_get_int(ctxs[atoi(vw[1])], n, &iv);
				ev_add("rv %d %d", rv, iv);
			} else if (strcmp(vw[3], "ms") == 0) {
				rv = vw[1][0] == '-' ? nng_socket_get_ms(sock, n, &dv) : nng_ctx_get_ms(ctxs[atoi(vw[1])], n, &dv);
				ev_add("rv %d %d", rv, (int) dv);
			} else {
				rv = vw[1][0] == '-' ? nng_socket_get_bool(sock, n, &bv) : nng_ctx_get_bool(ctxs[atoi(vw[1])], n, &bv);
				ev_add("rv %d %d", rv, (int) bv);
			}
			finish_line();
		} else if (IS("poll")) {
			// An application obtains the two descriptors ONCE and then only polls them: fetch them at the
			// first `poll` after `open` and keep them (fetching again would refresh the level of the
			// message-queue based descriptors of raw sockets and hide a stale one).
			char r = '-', w = '-';
			if (sock_open) {
				if (!poll_have) {
					poll_rrv  = nng_socket_get_recv_poll_fd(sock, &poll_rfd);
					poll_wrv  = nng_socket_get_send_poll_fd(sock, &poll_wfd);
					poll_have = true;
				}
				if (poll_rrv == 0) {
					struct pollfd pf = { poll_rfd, POLLIN, 0 };
					r                = poll(&pf, 1, 0) > 0 ? '1' : '0';
				}
				if (poll_wrv == 0) {
					struct pollfd pf = { poll_wfd, POLLIN, 0 };
					w                = poll(&pf, 1, 0) > 0 ? '1' : '0';
				}
			}
			ev_add("poll %c %c", r, w);
			finish_line();
		} else if (IS("sub") && vn == 3) {
			// subscribe/unsubscribe helpers: sub <ctx|-> <hex> ; unsub likewise
			size_t   l;
			uint8_t *t = parse_hex(vw[2], &l);
			int rv = vw[1][0] == '-' ? nng_sub0_socket_subscribe(sock, t, l) : nng_sub0_ctx_subscribe(ctxs[atoi(vw[1])], t, l);
			free(t);
			ev_add("rv %d", rv);
			finish_line();
		} else if (IS("unsub") && vn == 3) {
			size_t   l;
			uint8_t *t = parse_hex(vw[2], &l);
			int rv = vw[1][0] == '-' ? nng_sub0_socket_unsubscribe(sock, t, l) : nng_sub0_ctx_unsubscribe(ctxs[atoi(vw[1])], t, l);
			free(t);
			ev_add("rv %d", rv);
			finish_line();
		} else if (IS("close")) {
			do_close();
			finish_line();
		} else if (IS("now")) {
			printf("now %lld\n", sim_now_ms());
		} else {
			printf("bad-op\n");
		}
	}
	lib_fini(false);
	{
		unsigned long st, sw;
		int           nt;
		sim_stats(&st, &sw, &nt);
		fprintf(stderr, "steps=%lu switches=%lu threads=%d\n", st, sw, nt);
	}
	return (0);
}
