// UNIT op interpreter for the option plumbing (C03, option part).
//
//  * direct calls of the real nni_copyin_* / nni_copyout_* / nni_strlcpy from the static archive with
//    caller buffers malloc'ed at EXACTLY the declared size (any access outside is an ASan report);
//  * the typed public getters/setters (nng_socket_set_int, nng_ctx_get_ms, nng_dialer_set_string ...)
//    on real sockets, contexts, dialers and listeners (endpoints are created, never started).
//
// One output line per input line.  See vlib/props/c03_options.py for the op grammar.
#include <nng/nng.h>

#include "core/nng_impl.h"

#include "common.h"

static nng_socket   S = NNG_SOCKET_INITIALIZER;
static nng_ctx      C = NNG_CTX_INITIALIZER;
static nng_dialer   D = NNG_DIALER_INITIALIZER;
static nng_listener L = NNG_LISTENER_INITIALIZER;
static bool         haveS, haveC, haveD, haveL;
// a live websocket pipe (loopback): PA listens, PB dials; P is PA's pipe (the side that sees the request URI)
static nng_socket   PA = NNG_SOCKET_INITIALIZER, PB = NNG_SOCKET_INITIALIZER;
static nng_pipe     P  = NNG_PIPE_INITIALIZER;
static volatile int haveP;
static bool         havePair;

static void
pipe_cb(nng_pipe p, nng_pipe_ev ev, void *arg)
{
	(void) arg;
	if (ev == NNG_PIPE_EV_ADD_POST) {
		P     = p;
		haveP = 1;
	}
}

static int
ws_pair(const char *path)
{
	char         url[256];
	nng_listener l;
	int          rv, port = 0;
	if ((rv = nng_pair0_open(&PA)) != 0) {
		return (rv);
	}
	if ((rv = nng_pair0_open(&PB)) != 0) {
		nng_socket_close(PA);
		return (rv);
	}
	havePair = true;
	nng_pipe_notify(PA, NNG_PIPE_EV_ADD_POST, pipe_cb, NULL);
	snprintf(url, sizeof(url), "ws://127.0.0.1:0%s", path);
	if (((rv = nng_listener_create(&l, PA, url)) != 0) || ((rv = nng_listener_start(l, 0)) != 0) ||
	    ((rv = nng_listener_get_int(l, NNG_OPT_BOUND_PORT, &port)) != 0)) {
		return (rv);
	}
	snprintf(url, sizeof(url), "ws://127.0.0.1:%d%s", port, path);
	if ((rv = nng_dial(PB, url, NULL, 0)) != 0) {
		return (rv);
	}
	for (int i = 0; i < 2000 && !haveP; i++) {
		nng_msleep(1);
	}
	return (haveP ? 0 : NNG_ETIMEDOUT);
}

typedef int (*open_fn)(nng_socket *);
static const struct {
	const char *name;
	open_fn     fn;
} opens[] = {
	{ "nng_bus0_open", nng_bus0_open },
	{ "nng_bus0_open_raw", nng_bus0_open_raw },
	{ "nng_pair0_open", nng_pair0_open },
	{ "nng_pair0_open_raw", nng_pair0_open_raw },
	{ "nng_pair1_open", nng_pair1_open },
	{ "nng_pair1_open_raw", nng_pair1_open_raw },
	{ "nng_pair1_open_poly", nng_pair1_open_poly },
	{ "nng_pub0_open", nng_pub0_open },
	{ "nng_pub0_open_raw", nng_pub0_open_raw },
	{ "nng_sub0_open", nng_sub0_open },
	{ "nng_sub0_open_raw", nng_sub0_open_raw },
	{ "nng_push0_open", nng_push0_open },
	{ "nng_push0_open_raw", nng_push0_open_raw },
	{ "nng_pull0_open", nng_pull0_open },
	{ "nng_pull0_open_raw", nng_pull0_open_raw },
	{ "nng_req0_open", nng_req0_open },
	{ "nng_req0_open_raw", nng_req0_open_raw },
	{ "nng_rep0_open", nng_rep0_open },
	{ "nng_rep0_open_raw", nng_rep0_open_raw },
	{ "nng_surveyor0_open", nng_surveyor0_open },
	{ "nng_surveyor0_open_raw", nng_surveyor0_open_raw },
	{ "nng_respondent0_open", nng_respondent0_open },
	{ "nng_respondent0_open_raw", nng_respondent0_open_raw },
	{ NULL, NULL },
};

static void
close_all(void)
{
	if (haveS) {
		nng_socket_close(S); // closes contexts and endpoints too
	}
	haveS = haveC = haveD = haveL = false;
	if (havePair) {
		nng_socket_close(PB);
		nng_socket_close(PA);
	}
	havePair = false;
	haveP    = 0;
}

static int
tagnum(const char *t)
{
	if (!strcmp(t, "none")) return NNI_TYPE_NONE;
	if (!strcmp(t, "bool")) return NNI_TYPE_BOOL;
	if (!strcmp(t, "int")) return NNI_TYPE_INT32;
	if (!strcmp(t, "size")) return NNI_TYPE_SIZE;
	if (!strcmp(t, "ms")) return NNI_TYPE_DURATION;
	if (!strcmp(t, "str")) return NNI_TYPE_STRING;
	if (!strcmp(t, "addr")) return NNI_TYPE_SOCKADDR;
	return -1;
}

static bool
all_aa(const void *p, size_t n)
{
	const uint8_t *b = p;
	for (size_t i = 0; i < n; i++) {
		if (b[i] != 0xAA) {
			return (false);
		}
	}
	return (true);
}

// a caller variable of exactly n bytes, filled with 0xAA
static void *
var(size_t n)
{
	void *p = malloc(n);
	memset(p, 0xAA, n);
	return (p);
}

static void
do_set(char o, const char *name, const char *tag, const char *val)
{
	int rv = -1;
	if ((o == 's' && !haveS) || (o == 'c' && !haveC) || (o == 'd' && !haveD) || (o == 'l' && !haveL)) {
		printf("noobj\n");
		return;
	}
	if (!strcmp(tag, "int")) {
		int v = (int) strtoll(val, NULL, 10);
		rv    = o == 's' ? nng_socket_set_int(S, name, v)
		       : o == 'c' ? nng_ctx_set_int(C, name, v)
		       : o == 'd' ? nng_dialer_set_int(D, name, v)
		                  : nng_listener_set_int(L, name, v);
	} else if (!strcmp(tag, "ms")) {
		nng_duration v = (nng_duration) strtoll(val, NULL, 10);
		rv             = o == 's' ? nng_socket_set_ms(S, name, v)
		                : o == 'c' ? nng_ctx_set_ms(C, name, v)
		                : o == 'd' ? nng_dialer_set_ms(D, name, v)
		                           : nng_listener_set_ms(L, name, v);
	} else if (!strcmp(tag, "size")) {
		size_t v = (size_t) strtoull(val, NULL, 10);
		rv       = o == 's' ? nng_socket_set_size(S, name, v)
		          : o == 'c' ? nng_ctx_set_size(C, name, v)
		          : o == 'd' ? nng_dialer_set_size(D, name, v)
		                     : nng_listener_set_size(L, name, v);
	} else if (!strcmp(tag, "bool")) {
		bool v = atoi(val) != 0;
		rv     = o == 's' ? nng_socket_set_bool(S, name, v)
		        : o == 'c' ? nng_ctx_set_bool(C, name, v)
		        : o == 'd' ? nng_dialer_set_bool(D, name, v)
		                   : nng_listener_set_bool(L, name, v);
	} else if (!strcmp(tag, "str") && (o == 'd' || o == 'l')) {
		char *str = NULL;
		if (strcmp(val, "NULL") != 0) {
			size_t   n;
			uint8_t *b = parse_hex(val, &n);
			str        = malloc(n + 1); // exactly strlen + 1
			memcpy(str, b, n);
			str[n] = 0;
			free(b);
		}
		rv = o == 'd' ? nng_dialer_set_string(D, name, str) : nng_listener_set_string(L, name, str);
		free(str);
	} else if (!strcmp(tag, "addr") && o == 'd') {
		size_t        n;
		uint8_t      *b  = parse_hex(val, &n);
		nng_sockaddr *sa = malloc(sizeof(*sa));
		memset(sa, 0, sizeof(*sa));
		memcpy(sa, b, n < sizeof(*sa) ? n : sizeof(*sa));
		rv = nng_dialer_set_addr(D, name, sa);
		free(sa);
		free(b);
	} else {
		printf("nowrapper\n");
		return;
	}
	printf("%d\n", rv);
}

static void
do_get(char o, const char *name, const char *tag, bool nv)
{
	int rv = -1;
	if ((o == 's' && !haveS) || (o == 'c' && !haveC) || (o == 'd' && !haveD) || (o == 'l' && !haveL) || (o == 'p' && !haveP)) {
		printf("noobj\n");
		return;
	}
#define GET(T, sfx)                                                              \
	T *p = var(sizeof(T));                                                   \
	rv   = o == 's' ? nng_socket_get_##sfx(S, name, p)                       \
	      : o == 'c' ? nng_ctx_get_##sfx(C, name, p)                         \
	      : o == 'd' ? nng_dialer_get_##sfx(D, name, p)                      \
	      : o == 'p' ? (int) nng_pipe_get_##sfx(P, name, p)                  \
	                 : nng_listener_get_##sfx(L, name, p);                   \
	if (rv != 0) {                                                           \
		printf("%d %s\n", rv, all_aa(p, sizeof(T)) ? "untouched" : "TOUCHED"); \
		free(p);                                                         \
		return;                                                          \
	}
	if (!strcmp(tag, "int")) {
		GET(int, int)
		if (nv) printf("0 v=*\n"); else printf("0 v=%d\n", *p);
		free(p);
	} else if (!strcmp(tag, "ms")) {
		GET(nng_duration, ms)
		if (nv) printf("0 v=*\n"); else printf("0 v=%d\n", (int) *p);
		free(p);
	} else if (!strcmp(tag, "size")) {
		GET(size_t, size)
		if (nv) printf("0 v=*\n"); else printf("0 v=%zu\n", *p);
		free(p);
	} else if (!strcmp(tag, "bool")) {
		bool *p = var(sizeof(bool));
		rv      = o == 's' ? nng_socket_get_bool(S, name, p)
		         : o == 'c' ? nng_ctx_get_bool(C, name, p)
		         : o == 'd' ? nng_dialer_get_bool(D, name, p)
		         : o == 'p' ? (int) nng_pipe_get_bool(P, name, p)
		                    : nng_listener_get_bool(L, name, p);
		if (rv != 0) {
			printf("%d %s\n", rv, all_aa(p, sizeof(bool)) ? "untouched" : "TOUCHED");
		} else if (nv) {
			printf("0 v=*\n");
		} else {
			printf("0 v=%u\n", (unsigned) *(uint8_t *) p);
		}
		free(p);
	} else if (!strcmp(tag, "str") && (o == 'd' || o == 'l' || o == 'p')) {
		const char **p = var(sizeof(char *));
		rv = o == 'd' ? nng_dialer_get_string(D, name, p)
		    : o == 'p' ? (int) nng_pipe_get_string(P, name, p)
		               : nng_listener_get_string(L, name, p);
		if (rv != 0) {
			printf("%d %s\n", rv, all_aa(p, sizeof(char *)) ? "untouched" : "TOUCHED");
		} else if (nv) {
			printf("0 v=*\n");
		} else if (*p == NULL) {
			printf("0 v=NULL\n"); // a string getter may hand out NULL (e.g. ws:hdr-key outside an iteration)
		} else {
			printf("0");
			put_hex("v", (const uint8_t *) *p, strlen(*p));
			printf("\n");
		}
		free(p);
	} else {
		printf("nowrapper\n");
	}
}

// cin <fn> <tag> <lo> <hi> <hex>: nni_copyin_<fn>(&dst, buf, len, [lo, hi,] tag); buf has exactly the hex bytes
static void
do_cin(void)
{
	const char *fn = vw[1];
	int         t  = tagnum(vw[2]);
	size_t      n;
	uint8_t    *raw = parse_hex(vw[5], &n);
	uint8_t    *buf = malloc(n); // exact size (malloc(0) is a valid zero-sized object)
	memcpy(buf, raw, n);
	free(raw);
	int rv;
	if (!strcmp(fn, "int")) {
		int dst = 0x5a5a5a5a;
		rv      = nni_copyin_int(&dst, buf, n, (int) strtoll(vw[3], NULL, 10), (int) strtoll(vw[4], NULL, 10), t);
		if (rv == 0) printf("0 v=%d\n", dst); else printf("%d %s\n", rv, dst == 0x5a5a5a5a ? "keep" : "CHANGED");
	} else if (!strcmp(fn, "ms")) {
		nni_duration dst = 0x5a5a5a5a;
		rv               = nni_copyin_ms(&dst, buf, n, t);
		if (rv == 0) printf("0 v=%d\n", (int) dst); else printf("%d %s\n", rv, dst == 0x5a5a5a5a ? "keep" : "CHANGED");
	} else if (!strcmp(fn, "size")) {
		size_t dst = 0x5a5a5a5a5a5a5a5aull;
		rv = nni_copyin_size(&dst, buf, n, (size_t) strtoull(vw[3], NULL, 10), (size_t) strtoull(vw[4], NULL, 10), t);
		if (rv == 0) printf("0 v=%zu\n", dst); else printf("%d %s\n", rv, dst == 0x5a5a5a5a5a5a5a5aull ? "keep" : "CHANGED");
	} else if (!strcmp(fn, "bool")) {
		uint8_t dst[sizeof(bool)];
		memset(dst, 0x5a, sizeof(dst));
		rv = nni_copyin_bool((bool *) dst, buf, n, t);
		if (rv == 0) printf("0 v=%u\n", (unsigned) dst[0]); else printf("%d %s\n", rv, dst[0] == 0x5a ? "keep" : "CHANGED");
	} else if (!strcmp(fn, "addr")) {
		nng_sockaddr *dst = var(sizeof(*dst));
		rv                = nni_copyin_sockaddr(dst, buf, t);
		if (rv == 0) {
			printf("0");
			put_hex("v", (uint8_t *) dst, sizeof(*dst));
			printf("\n");
		} else {
			printf("%d %s\n", rv, all_aa(dst, sizeof(*dst)) ? "keep" : "CHANGED");
		}
		free(dst);
	} else {
		printf("bad-op\n");
	}
	free(buf);
}

// cout <fn> <tag> <val> <size>: nni_copyout_<fn>(val, buf, NULL, tag); buf = <size> bytes of 0xAA
static void
do_cout(void)
{
	const char *fn  = vw[1];
	int         t   = tagnum(vw[2]);
	size_t      n   = (size_t) strtoull(vw[4], NULL, 10);
	uint8_t    *buf = var(n);
	int         rv;
	if (!strcmp(fn, "int")) {
		rv = nni_copyout_int((int) strtoll(vw[3], NULL, 10), buf, NULL, t);
	} else if (!strcmp(fn, "ms")) {
		rv = nni_copyout_ms((nng_duration) strtoll(vw[3], NULL, 10), buf, NULL, t);
	} else if (!strcmp(fn, "size")) {
		rv = nni_copyout_size((size_t) strtoull(vw[3], NULL, 10), buf, NULL, t);
	} else if (!strcmp(fn, "bool")) {
		rv = nni_copyout_bool(atoi(vw[3]) != 0, buf, NULL, t);
	} else if (!strcmp(fn, "str")) {
		rv = nni_copyout_str((const char *) (uintptr_t) strtoull(vw[3], NULL, 10), buf, NULL, t);
	} else if (!strcmp(fn, "addr")) {
		size_t        k;
		uint8_t      *b  = parse_hex(vw[3], &k);
		nng_sockaddr *sa = malloc(sizeof(*sa));
		memset(sa, 0, sizeof(*sa));
		memcpy(sa, b, k < sizeof(*sa) ? k : sizeof(*sa));
		rv = nni_copyout_sockaddr(sa, buf, NULL, t);
		free(sa);
		free(b);
	} else {
		printf("bad-op\n");
		free(buf);
		return;
	}
	printf("%d", rv);
	put_hex("b", buf, n);
	printf("\n");
	free(buf);
}

int
main(void)
{
	nng_init(NULL);
	while (next_line()) {
		if (vn == 0) {
			continue;
		}
		const char *op = vw[0];
		if (!strcmp(op, "reset")) {
			close_all();
			printf("reset\n");
		} else if (!strcmp(op, "verbose")) {
			printf("ok\n");
		} else if (!strcmp(op, "open") && vn == 2) {
			close_all();
			int rv = -1;
			for (int i = 0; opens[i].name; i++) {
				if (!strcmp(opens[i].name, vw[1])) {
					rv    = opens[i].fn(&S);
					haveS = rv == 0;
				}
			}
			printf("%d\n", rv);
		} else if (!strcmp(op, "ctx") && vn == 1 && haveS) {
			int rv = nng_ctx_open(&C, S);
			haveC  = rv == 0;
			printf("%d\n", rv);
		} else if (!strcmp(op, "dialer") && vn == 2 && haveS) {
			int rv = nng_dialer_create(&D, S, vw[1]);
			haveD  = rv == 0;
			printf("%d\n", rv);
		} else if (!strcmp(op, "listener") && vn == 2 && haveS) {
			int rv = nng_listener_create(&L, S, vw[1]);
			haveL  = rv == 0;
			printf("%d\n", rv);
		} else if (!strcmp(op, "dflt")) {
			printf("ok\n");
		} else if (!strcmp(op, "set") && vn == 5) {
			do_set(vw[1][0], vw[2], vw[3], vw[4]);
		} else if (!strcmp(op, "get") && (vn == 4 || vn == 5)) {
			do_get(vw[1][0], vw[2], vw[3], vn == 5);
		} else if (!strcmp(op, "wspipe") && vn == 2) {
			close_all();
			printf("%d\n", ws_pair(vw[1]));
		} else if (!strcmp(op, "pstrcpy") && vn == 4 && haveP) {
			// pstrcpy <name> <len> <dcap>: nng_pipe_get_strcpy(P, name, buf[dcap], len)
			size_t   len  = (size_t) strtoull(vw[2], NULL, 10);
			size_t   dcap = (size_t) strtoull(vw[3], NULL, 10);
			uint8_t *dst  = var(dcap);
			int      rv   = nng_pipe_get_strcpy(P, vw[1], (char *) dst, len);
			printf("%d", rv);
			put_hex("b", dst, dcap);
			printf("\n");
			free(dst);
		} else if (!strcmp(op, "pstrlen") && vn == 2 && haveP) {
			size_t *n  = var(sizeof(size_t));
			int     rv = nng_pipe_get_strlen(P, vw[1], n);
			if (rv == 0) {
				printf("0 v=%zu\n", *n);
			} else {
				printf("%d %s\n", rv, all_aa(n, sizeof(*n)) ? "untouched" : "TOUCHED");
			}
			free(n);
		} else if (!strcmp(op, "pstrdup") && vn == 2 && haveP) {
			char **sp = var(sizeof(char *));
			int    rv = nng_pipe_get_strdup(P, vw[1], sp);
			if (rv == 0 && *sp == NULL) {
				printf("0 v=NULL\n");
			} else if (rv == 0) {
				printf("0");
				put_hex("v", (uint8_t *) *sp, strlen(*sp));
				printf("\n");
				nng_strfree(*sp);
			} else {
				printf("%d %s\n", rv, all_aa(sp, sizeof(*sp)) ? "untouched" : "TOUCHED");
			}
			free(sp);
		} else if (!strcmp(op, "cin") && vn == 6) {
			do_cin();
		} else if (!strcmp(op, "cout") && vn == 5) {
			do_cout();
		} else if (!strcmp(op, "cinstr") && vn == 5) {
			// cinstr <maxsz> <tag> <dcap> <hex>: nni_copyin_str(dst[dcap], src (exactly the hex bytes), maxsz, tag)
			size_t   maxsz = (size_t) strtoull(vw[1], NULL, 10);
			size_t   dcap  = (size_t) strtoull(vw[3], NULL, 10);
			size_t   n;
			uint8_t *raw = parse_hex(vw[4], &n);
			uint8_t *src = malloc(n);
			memcpy(src, raw, n);
			free(raw);
			uint8_t *dst = var(dcap);
			int      rv  = nni_copyin_str((char *) dst, src, maxsz, tagnum(vw[2]));
			printf("%d", rv);
			put_hex("b", dst, dcap);
			printf("\n");
			free(dst);
			free(src);
		} else if (!strcmp(op, "strlcpy") && vn == 4) {
			// strlcpy <len> <dcap> <hexsrc>: nni_strlcpy(dst[dcap], src + NUL, len)
			size_t   len  = (size_t) strtoull(vw[1], NULL, 10);
			size_t   dcap = (size_t) strtoull(vw[2], NULL, 10);
			size_t   n;
			uint8_t *raw = parse_hex(vw[3], &n);
			char    *src = malloc(n + 1);
			memcpy(src, raw, n);
			src[n] = 0;
			free(raw);
			uint8_t *dst = var(dcap);
			size_t   r   = nni_strlcpy((char *) dst, src, len);
			printf("%zu", r);
			put_hex("b", dst, dcap);
			printf("\n");
			free(dst);
			free(src);
		} else {
			printf("bad-op\n");
		}
	}
	close_all();
	nng_fini();
	return (0);
}
