#!/usr/bin/env python3
"""Assemble MANIFEST.json from scripts/manifest_entries/*.json (one per claimed property) and the list of
all property ids; properties without an entry are listed under not_applicable with the reason given in
scripts/not_claimed.json."""
import json, os, glob
HERE = os.path.dirname(os.path.dirname(os.path.abspath(__file__)))
ids = [json.loads(l)["id"] for l in open(os.path.join(HERE, "properties.jsonl"))]
entries = {}
for f in sorted(glob.glob(os.path.join(HERE, "scripts", "manifest_entries", "*.json"))):
    e = json.load(open(f))
    entries[e["property_id"]] = e
reasons = json.load(open(os.path.join(HERE, "scripts", "not_claimed.json")))
hooks = json.load(open(os.path.join(HERE, "scripts", "hooks.json")))
m = {"version": 1, "setup_cmd": "./setup.sh", "hooks": hooks,
     "engines": [{"name": "lean-proof+correspondence", "path": "check", "serves_properties": sorted(entries),
                  "kind_free_text": "Lean 4 theorems about executable models (lean/NngModel) + differential execution of model, executable "
                                    "specification/trace predicate and the real code (vlib/, harness/: UNIT, SIM = simulated platform + mock transport, REAL)"}],
     "checks": [entries[i] for i in ids if i in entries],
     "not_applicable": [{"property_id": i, "reason": reasons.get(i, "check not built yet in this revision; see DESIGN.md section 5")} for i in ids if i not in entries],
     "notes": "see DESIGN.md; known_findings.json lists defects found (all repaired by fix: commits so far)"}
json.dump(m, open(os.path.join(HERE, "MANIFEST.json"), "w"), indent=1)
print("claimed:", sorted(entries), "not claimed:", [i for i in ids if i not in entries])
