#!/usr/bin/env python3
"""Regenerates the as-built appendices of DESIGN.md (between the markers) from integration/*.md section (d),
known_findings.json and seeded/*/{meta,check_result}.json."""
import json, os, re, glob
HERE = os.path.dirname(os.path.dirname(os.path.abspath(__file__)))
D = os.path.join(HERE, "DESIGN.md")
BEGIN, END = "<!-- BEGIN GENERATED AS-BUILT -->", "<!-- END GENERATED AS-BUILT -->"


def section_d(path):
    s = open(path).read()
    m = re.search(r"^## \(d\)[^\n]*\n(.*?)(?=^## \([e-z]\)|\Z)", s, re.S | re.M)
    return m.group(1).strip() if m else None


import sys
sys.path.insert(0, HERE)
from vlib import lean as _lean
out = [BEGIN, "", "## Appendix B2. What is claimed (generated from MANIFEST.json and the Lean sources)", "",
       "| id | theorems in Props/ (all re-checked and axiom-audited on every run) | technique | evidence of the last committed run |", "|---|---|---|---|"]
_man = json.load(open(os.path.join(HERE, "MANIFEST.json")))
_mods = {"C04": ["C04Req", "C04Rep"], "C16": ["C16", "C16Http"]}
for c in _man["checks"]:
    pid = c["property_id"]
    n = sum(len(_lean.theorem_names(f"NngModel.Props.{m}")) for m in _mods.get(pid, [pid]))
    ev = ""
    try:
        e = json.load(open(os.path.join(HERE, "evidence", f"{pid}.json")))
        cov = e["coverage"]
        ev = f"{cov.get('discharged')}/{cov.get('obligations')} obligations, {cov.get('evaluations')} runs, {e.get('violations')} violations, {e.get('wall_s')} s"
    except Exception:
        pass
    out.append(f"| {pid} | {n} | {c.get('technique','')} | {ev} |")
out += ["", "## Appendix C. As built, per property (from the hand-over notes in `integration/`)", ""]
for f in sorted(glob.glob(os.path.join(HERE, "integration", "*.md"))):
    name = os.path.basename(f)[:-3]
    d = section_d(f)
    if d:
        out += [f"### {name}", "", d, ""]
out += ["## Appendix D. Defects found in the pinned tree (all repaired by `fix:` commits in /repo)", "",
        "| property | commit | what failed |", "|---|---|---|"]
for e in json.load(open(os.path.join(HERE, "known_findings.json"))):
    out.append(f"| {e['property']} | {e.get('commit','')} ({e['status']}) | {e['text'].split(' ',3)[-1] if e['text'].startswith('fixed:') else e['text']} |")
out += ["", "## Appendix E. Seeded faults (written by independent sub-agents from the property text only) and which check catches them", "",
        "| id | property | fault | needs | result of `scripts/try_seeded.py` (quick tier) |", "|---|---|---|---|---|"]
for d in sorted(glob.glob(os.path.join(HERE, "seeded", "*"))):
    try:
        meta = json.load(open(os.path.join(d, "meta.json")))
    except Exception:
        continue
    res = ""
    rp = os.path.join(d, "check_result.json")
    if os.path.exists(rp):
        r = json.load(open(rp))
        res = "; ".join(f"{k}: {'CAUGHT' if v['exit'] != 0 and v['violations'] else 'MISSED'}"
                        + (" (no-failing-input-found)" if v['violations'] and 'no-failing-input-found' in v['violations'][0] else "")
                        for k, v in r.items())
    cl = lambda x: re.sub(r"\s+", " ", str(x)).replace("|", "/")[:260]
    out.append(f"| {os.path.basename(d)} | {meta.get('property','')} | {cl(meta.get('summary',''))} | {cl(meta.get('needs',''))} | {res} |")
out += ["", END]
s = open(D).read()
if BEGIN in s:
    s = s[:s.index(BEGIN)] + "\n".join(out) + s[s.index(END) + len(END):]
else:
    s = s.rstrip() + "\n\n---------------------------------------------------------------------------\n\n" + "\n".join(out) + "\n"
open(D, "w").write(s)
print("appendices written:", len(out), "lines")
