#!/usr/bin/env python3
"""seeded_regression.py [--only Cxx] : re-runs every stored seeded fault (seeded/<id>/patch.diff) against the checks that
are recorded as catching it (seeded/<id>/check_result.json; default: the fault's own property) in a scratch COPY of
/verif, so that it does not disturb checks running in /verif.  Prints one line per fault and a summary; refreshes
check_result.json in /verif/seeded/<id>/ .  Takes about two hours for the whole set."""
import os, sys, json, subprocess, shutil, time
HERE = os.path.dirname(os.path.dirname(os.path.abspath(__file__)))
WORK = "/tmp/seedreg/verif"
only = sys.argv[sys.argv.index("--only") + 1] if "--only" in sys.argv else None
os.makedirs(os.path.dirname(WORK), exist_ok=True)
subprocess.run(["rsync", "-a", "--delete", "--exclude", ".git", HERE + "/", WORK + "/"], check=True)
ids = sorted(d for d in os.listdir(os.path.join(HERE, "seeded")) if os.path.exists(os.path.join(HERE, "seeded", d, "patch.diff")))
tot = {"caught_own": 0, "caught_other": 0, "missed": 0}
for sid in ids:
    own = sid.split("-")[0]
    if only and own != only:
        continue
    f = os.path.join(HERE, "seeded", sid, "check_result.json")
    props = [own]
    if os.path.exists(f):
        old = json.load(open(f))
        props += [p for p, r in old.items() if p != own and r.get("exit") != 0 and r.get("violations")]
    t0 = time.time()
    subprocess.run([sys.executable, os.path.join(WORK, "scripts", "try_seeded.py"), os.path.join(WORK, "seeded", sid)] + props,
                   cwd=WORK, capture_output=True, text=True)
    res = json.load(open(os.path.join(WORK, "seeded", sid, "check_result.json")))
    shutil.copy(os.path.join(WORK, "seeded", sid, "check_result.json"), f)
    caught = [p for p, r in res.items() if r.get("exit") != 0 and r.get("violations")]
    weak = [p for p in caught if all("no-failing-input-found" in v for v in res[p]["violations"])]
    k = "caught_own" if own in caught else ("caught_other" if caught else "missed")
    tot[k] += 1
    print(f"{sid}: {'CAUGHT by ' + ','.join(caught) if caught else 'MISSED'}{' (no failing input: ' + ','.join(weak) + ')' if weak else ''} [{time.time() - t0:.0f}s]", flush=True)
print("SUMMARY", tot, flush=True)
shutil.rmtree("/tmp/seedreg", ignore_errors=True)
