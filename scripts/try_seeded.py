#!/usr/bin/env python3
"""try_seeded.py <dir-with-patch.diff> <Cxx> [<Cyy> ...] [--tier quick]
Applies the seeded fault to a scratch worktree of /repo (never to /repo itself), runs the named checks
against it (VERIF_REPO), prints one line per check: CAUGHT (with the first VIOLATION line) or MISSED."""
import sys, os, subprocess, shutil, json, time, tempfile
HERE = os.path.dirname(os.path.dirname(os.path.abspath(__file__)))
d = sys.argv[1]
props = [a for a in sys.argv[2:] if not a.startswith("--")]
tier = "thorough" if "--thorough" in sys.argv else "quick"
wt = tempfile.mkdtemp(prefix="seedtest-", dir="/tmp")
os.rmdir(wt)
out = tempfile.mkdtemp(prefix="seedout-", dir="/tmp")
subprocess.run(["git", "-C", "/repo", "worktree", "add", "--detach", wt, "HEAD"], check=True, capture_output=True)
res = {}
try:
    r = subprocess.run(["git", "-C", wt, "apply", os.path.join(os.path.abspath(d), "patch.diff")], capture_output=True, text=True)
    if r.returncode != 0:
        print("PATCH DOES NOT APPLY:", r.stderr[:300]); sys.exit(2)
    env = dict(os.environ, VERIF_REPO=wt, VERIF_OUT=out)
    for p in props:
        t0 = time.time()
        r = subprocess.run([os.path.join(HERE, "check"), p, tier], cwd=HERE, env=env, capture_output=True, text=True)
        viol = [l for l in r.stdout.splitlines() if l.startswith("VIOLATION")]
        res[p] = {"exit": r.returncode, "violations": viol[:3], "wall_s": round(time.time() - t0, 1)}
        status = "CAUGHT" if r.returncode != 0 and viol else "MISSED"
        detail = ""
        if viol:
            rp = viol[0].split("replay=")[1].split()[0]
            try:
                j = json.load(open(rp))
                detail = (j.get("kind", "")[:90] + " | " + str(j.get("clause", ""))[:80] + " | ops=" + str(j.get("ops", j.get("input", "")))[:200])
            except Exception as e:
                detail = f"(replay unreadable: {e})"
        print(f"{status} {p} exit={r.returncode} {res[p]['wall_s']}s {viol[0] if viol else ''}\n     {detail}")
finally:
    subprocess.run(["git", "-C", "/repo", "worktree", "remove", "--force", wt], capture_output=True)
    shutil.rmtree(out, ignore_errors=True)
json.dump(res, open(os.path.join(d, "check_result.json"), "w"), indent=1)
