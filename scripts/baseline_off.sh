#!/bin/sh
# Builds /repo's working tree exactly as the baseline does (no NNG_VERIF define) in a scratch
# directory and runs the repository's own test suite.
set -e
B=/verif/.cache/baseline_off
rm -rf "$B"
cmake -G Ninja -S /repo -B "$B" -DCMAKE_BUILD_TYPE=RelWithDebInfo -DCMAKE_C_FLAGS=-Wno-error >/dev/null
cmake --build "$B" -j16 >/dev/null
ctest --test-dir "$B" -j8 --timeout 900 "$@"
rc=$?
rm -rf "$B"
exit $rc
